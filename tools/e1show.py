#!/usr/bin/env python3
import sys; sys.path.insert(0,'/verif')
from dv import extract, facts, e1
fp,h,dt = extract.facts_path(); F = facts.Facts(fp)
mode = sys.argv[1]
r = e1.run_mode(F, mode, cache_key=h)
print(r['summary'])
for v in r['violations']:
    print('[%s] %s -> %s {%s}\n    %s\n    first: %s  %s  x%d' % (v['rule'], v['fn'], v['callee'], v['facet'], v['what'], v['first_state'], v['site'], v['count']))
    for k, n in v['via'][:int(sys.argv[2]) if len(sys.argv)>2 else 3]:
        print('       via', k, 'x%d' % n)
    for w in v.get('witness', [])[-8:]: print('       W', w)
