"""C15 — syntax highlighting only recolours foregrounds, by the file's language (structural part)."""
from . import _e1common as E
from .. import rules as Ru
from ..facts import callee_of, callee_full, reach

EXPLANATION = (
    "TAINT (MIR): in functions reachable from the renderer, a value with syntect provenance (a syntect Color/Style place, or the result of "
    "the syntect->ansi colour conversion) flows into an ansi_term::Style only as the `foreground` field (aggregate operand position / field "
    "assignment), and that construction is control-dependent on `style.is_syntax_highlighted`. LANG: content-sniffing syntax lookups "
    "(find_syntax_by_first_line, find_syntax_for_file) are called only with the configured default language, never with a value derived "
    "from the file name or the input. FRESH: every non-error path of the hunk-header emitter re-creates the highlighter. STALE-SYNTAX (E1 "
    "typestate): whenever minus_file/plus_file change, the language is re-selected (write to Painter.syntax) before the next hunk header is "
    "handed to the emitter, on every path, for inputs of any length.")

ANSI_STYLE = 'ansi_term::Style'


def _elem_type(ty, flds):
    """type of a tuple element selected by the first projection (field-sensitive for tuples)"""
    ty = ty.strip()
    while ty.startswith('&'):
        ty = ty[1:].lstrip()
        if ty.startswith('mut '):
            ty = ty[4:]
    if ty.startswith('(') and flds and str(flds[0]).isdigit():
        depth = 0
        parts, cur = [], ''
        for ch in ty[1:-1]:
            if ch in '<([':
                depth += 1
            elif ch in '>)]':
                depth -= 1
            if ch == ',' and depth == 0:
                parts.append(cur.strip())
                cur = ''
            else:
                cur += ch
        parts.append(cur.strip())
        i = int(flds[0])
        if i < len(parts):
            return parts[i]
    return ty


def _syntect_tainted(F, p, op):
    mir = F.bodies[p]['mir']
    for r in F.trace(p, op, deep=True):
        if r[0] == 'call' and (r[1].endswith('::to_ansi_color') or 'syntect' in r[1] and 'highlight' in r[1]):
            return 'call %s' % r[1].split('::')[-1]
        if r[0] == 'param':
            ty = _elem_type(mir['locals'][r[1]], r[2])
            if 'syntect::highlighting' in ty:
                return 'param of type %s' % ty[:50]
        if r[0] == 'local':
            ty = _elem_type(mir['locals'][r[1]], r[2])
            if 'syntect::highlighting' in ty:
                return 'local of type %s' % ty[:50]
    pl = op.get('copy') or op.get('move')
    if pl is not None and 'syntect::highlighting' in _elem_type(mir['locals'][pl['l']], [pr[3] for pr in pl['p'] if pr[0] == 'field']):
        return 'place of type %s' % mir['locals'][pl['l']][:50]
    return None


def run(F, tier, res):
    from .. import extract
    _, h, _ = extract.facts_path()
    modes = ['N', 'H'] if tier == 'quick' else ['N', 'H', 'R']
    R = E.runs(F, h, modes)
    res.assumptions += E.ASSUMPTIONS + ['ansi_term renders exactly the fields of ansi_term::Style', 'syntect returns the same syntax for the same name (no hidden state)']
    res.not_decided += ['which theme colours result; light/dark detection', 'that the same language is chosen for two names "of the same kind" (property of the syntax set)']
    delta = [p for p in F.fn_bodies if p == 'delta::delta']
    if not delta:
        res.anchor_missing('delta::delta')
        return res
    render = F.reachable_from(delta)
    # ---------- TAINT
    n = ok = 0
    samples = []
    for p in sorted(render):
        for bi, blk in enumerate(F.blocks(p)):
            if blk['cleanup']:
                continue
            for st in blk['s']:
                if st[0] != 'assign':
                    continue
                rv = st[2]
                if rv[0] == 'agg' and rv[1][0] == 'adt' and rv[1][1] == ANSI_STYLE:
                    fields = rv[1][4] if len(rv[1]) > 4 else []
                    tainted = [(fields[i] if i < len(fields) else str(i), _syntect_tainted(F, p, o)) for i, o in enumerate(rv[2])]
                    tainted = [(f, t) for f, t in tainted if t]
                    if not tainted:
                        continue
                    n += 1
                    bad = [f for f, t in tainted if f != 'foreground']
                    g = Ru.guarded_by(F, p, bi, lambda roots: any(r[0] in ('param', 'local') and r[-1] and 'is_syntax_highlighted' in r[-1] for r in roots if r[0] == 'param') or
                                      any(r[0] == 'param' and r[2] and r[2][-1] == 'is_syntax_highlighted' for r in roots))
                    if not g:
                        # the flag may be read from a local copy of the style: look for a switch on a place with that field
                        for (sb, op, arms, other) in Ru.switches(F, p):
                            pl = op.get('copy') or op.get('move')
                            if pl is None:
                                continue
                            for (dbb, kind, payload) in F.local_defs(p).get(pl['l'], []):
                                if kind == 'assign' and payload[0] == 'use':
                                    q = payload[1].get('copy') or payload[1].get('move')
                                    if q and any(pr[0] == 'field' and pr[3] == 'is_syntax_highlighted' for pr in q['p']):
                                        tt, ft = Ru.bool_edges(arms, other)
                                        if Ru.edge_dominates(F, p, sb, tt, bi):
                                            g = (sb, tt)
                    samples.append('%s: %s%s' % (p.split('::')[-2:], tainted, ' guarded' if g else ' UNGUARDED'))
                    if bad:
                        res.violate('TAINT', 'fn=%s;field=%s' % (p, bad[0]), 'a syntax-highlighting colour flows into the `%s` field of the rendered style: '
                                    'switching the syntax theme changes more than foreground colours' % bad[0], where=F.bodies[p]['mir']['span']['at'])
                    elif not g:
                        res.violate('TAINT', 'fn=%s;unguarded' % p, 'the syntax foreground is applied without checking that the diff style asks for `syntax`: '
                                    'text with a configured foreground is recoloured', where=F.bodies[p]['mir']['span']['at'])
                    else:
                        ok += 1
                # field assignments
                if st[1]['p']:
                    fl = [(pr[2], pr[3]) for pr in st[1]['p'] if pr[0] == 'field']
                    if fl and fl[-1][0] == ANSI_STYLE and rv[0] == 'use':
                        t = _syntect_tainted(F, p, rv[1])
                        if t:
                            n += 1
                            if fl[-1][1] == 'foreground':
                                ok += 1
                            else:
                                res.violate('TAINT', 'fn=%s;assign=%s' % (p, fl[-1][1]), 'a syntax-highlighting colour is assigned to the `%s` field of a rendered style' % fl[-1][1],
                                            where=F.bodies[p]['mir']['span']['at'])
    res.rule('C15.TAINT', n, 1, 'constructions / field assignments of ansi_term::Style in the renderer that receive a syntect-derived value', discharged=ok, samples=samples)
    # ---------- LANG
    nl = okl = 0
    for p in sorted(render):
        for i, c in F.calls(p):
            r = callee_of(c)
            if r.endswith('::find_syntax_by_first_line') or r.endswith('::find_syntax_for_file'):
                nl += 1
                args = c['args'][1:]
                roots = [rr for a in args for rr in F.trace(p, a, deep=True)]
                mir = F.bodies[p]['mir']
                names = {n_[1]['l']: n_[0] for n_ in mir['names'] if not n_[1]['p']}
                from_filename = any(rr[0] == 'param' and ('file' in (names.get(rr[1]) or '') or any('file' in f for f in rr[2])) and names.get(rr[1]) != 'fallback' for rr in roots)
                from_default = any(rr[0] == 'param' and (names.get(rr[1]) == 'fallback' or (rr[2] and rr[2][-1] == 'default_language')) for rr in roots)
                if r.endswith('first_line') or from_filename or not from_default:
                    res.violate('LANG', 'fn=%s;callee=%s' % (p, r.split('::')[-1]), 'a content-sniffing syntax lookup is applied to something other than the configured default language: '
                                'the language no longer depends on the file name alone', where=F.span_of_call(c))
                else:
                    okl += 1
    ext = Ru.call_sites(F, lambda r, c: r.endswith('::find_syntax_by_extension'), render)
    res.rule('C15.LANG', nl + len(ext), 2, 'syntax lookups in the renderer: %d by extension/name, %d content-capable (only with the default language)' % (len(ext), nl), discharged=okl + len(ext))
    # ---------- FRESH
    emitters = {eval(x)[0] if x.startswith('(') else x for x in []}
    em = [p for p in F.fn_bodies if p.endswith('::emit_hunk_header_line')]
    hl_writers = {p for p in F.fn_bodies if any(w for w in Ru.field_writes(F, p, 'paint::Painter', 'highlighter') if w[2] in ('assign', 'call'))}
    nf = okf = 0
    for p in em:
        nf += 1
        calls = [i for i, c in F.calls(p) if callee_of(c) in hl_writers]
        errexits = [bb for bb, cc in F.calls(p) if 'from_residual' in callee_of(cc)]
        if calls and not Ru.must_pass(F, p, 0, set(calls) | set(errexits)):
            okf += 1
        else:
            res.violate('FRESH', 'fn=%s' % p, 'the hunk-header emitter can return without re-creating the highlighter: parser state of the previous hunk leaks into the next', where=F.bodies[p]['mir']['span']['at'])
    res.rule('C15.FRESH', nf, 1, 'hunk-header emitters; every non-error path re-creates the highlighter (writers of Painter.highlighter: %s)' % sorted(x.split('::')[-1] for x in hl_writers), discharged=okf)
    # ---------- STALE-SYNTAX
    E.add_e1(res, R, {'STALE-SYNTAX', 'HL-SWAP'}, 'C15')
    N = R['N']
    # ---------- COALESCE: adjacent characters share one painted section only if their (syntax style, diff style) pairs agree on
    # everything the section's final style is computed from - in particular on whether the diff style asks for syntax colours at all
    co = [q for q in F.fn_bodies if q.endswith('superimpose_style_sections::coalesce')]
    nco = okco = 0
    if not co:
        res.anchor_missing('superimpose_style_sections::coalesce')
    NEED = {'is_syntax_highlighted', 'ansi_term_style', 'foreground'}
    for q in co:
        nco += 1
        full_eq = False
        compared = set()

        def scan(fn, depth=0):
            nonlocal full_eq
            for _, c in F.calls(fn):
                cal, full = callee_of(c), callee_full(c)
                if cal.endswith(('::ne', '::eq')):
                    if 'syntect::highlighting::Style' in full and 'style::Style' in full:
                        full_eq = True
                    for a in c['args'][:2]:
                        for r in F.trace(fn, a, deep=True):
                            if r[0] in ('param', 'local') and r[2]:
                                compared.update(r[2])
                    if 'for &style::Style' in full or full.rstrip('>').endswith('for style::Style') or "PartialEq for style::Style" in full:
                        compared.update({'is_syntax_highlighted', 'ansi_term_style'})
                elif cal in F.fn_bodies and depth < 2 and F.bodies[cal]['mir']['locals'][0] == 'bool':
                    scan(cal, depth + 1)
                elif (c.get('resolved') or '') in F.fn_bodies and depth < 2 and F.bodies[c['resolved']]['mir']['locals'][0] == 'bool':
                    scan(c['resolved'], depth + 1)
            # direct field comparisons in MIR (binop Eq/Ne on bool / int fields)
            for blk in F.blocks(fn):
                for st in blk['s']:
                    if st[0] == 'assign' and st[2][0] == 'binop' and st[2][1] in ('Eq', 'Ne'):
                        for o in st[2][2:4]:
                            for r in F.trace(fn, o, deep=True):
                                if r[0] in ('param', 'local') and r[2]:
                                    compared.update(r[2])
        scan(q)
        if full_eq or NEED <= compared:
            okco += 1
        else:
            res.violate('COALESCE', 'fn=%s' % q, 'characters are merged into one painted section by a comparison that ignores %s of their style pairs: a run whose diff style does not ask for '
                        'syntax colours can be merged into a preceding syntax-highlighted run (or vice versa) and painted with its foreground' % sorted(NEED - compared),
                        where=F.bodies[q]['mir']['span']['at'])
    res.rule('C15.COALESCE', nco, 1, 'section-merging comparison in superimpose_style_sections::coalesce covers is_syntax_highlighted, the diff style and the syntax foreground (or is full equality)', discharged=okco)
    res.rule('C15.STALE-SYNTAX', N['summary']['events'].get('HDR_HUNK_HANDOFF', 0) + N['summary']['events'].get('SET_SYNTAX', 0), 100,
             'hunk-header hand-offs + language selections explored by E1: language selected since the last file-name change at every hand-off')
    E.evidence(res, R)
    return res
