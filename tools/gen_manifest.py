#!/usr/bin/env python3
"""Regenerate /verif/MANIFEST.json from the table below (kept valid at all times)."""
import json, os
V = os.path.dirname(os.path.dirname(os.path.abspath(__file__)))

CLAIMED = {
 'C20': dict(
    technique='MIR protocol rules: dominance/post-dominance, guarded-by (edge-sensitive, evaluated over the finite source domain), who-may-construct, guard live-range scan, call-graph reachability',
    text='Eight structural invariants (G1-G8) of the mutex/condvar/atomic protocol are decided on every CFG path of the cfg(not(test)) build; '
         'together they imply that a query never returns Pending or a stale guess, never blocks forever, and a launched command is never overwritten, under every interleaving.',
    note='Trusts std Mutex/Condvar/atomics and rustc MIR construction + callee resolution; OS process-table races and panics inside the determination thread are not decided.',
    design='5/C20'),
}
NOT_APPLICABLE = {
 'C06': 'Soundness/minimality of a dynamic-programming token alignment and a distance threshold over all string pairs: arithmetic on runtime values; no structural necessary condition beyond what the 35 unit tests already pin (DESIGN.md section 6).',
 'C07': 'Panel widths, wrap points and truncation are arithmetic over display widths of runtime strings; no pairing/ownership/table structure carries the property (DESIGN.md section 6).',
}
PENDING = 'check not built yet in this round (designed in DESIGN.md section 5; will be claimed when its rule set runs clean)'

def main():
    props = [json.loads(l)['id'] for l in open(os.path.join(V, 'properties.jsonl')) if l.strip()]
    checks = []
    for pid in props:
        if pid in CLAIMED:
            c = CLAIMED[pid]
            checks.append({
                'property_id': pid,
                'quick_cmd': './check %s --tier quick' % pid,
                'thorough_cmd': './check %s --tier thorough' % pid,
                'evidence_file': 'evidence/%s.json' % pid,
                'replay_cmd_template': './check %s --replay {path}' % pid,
                'engine': 'dv',
                'level_claimed': {'category': 'other', 'text': c['text'], 'design_ref': c['design']},
                'level_note': c['note'],
                'technique': 'static analysis: ' + c['technique'],
            })
    na = []
    for pid in props:
        if pid not in CLAIMED:
            na.append({'property_id': pid, 'reason': NOT_APPLICABLE.get(pid, PENDING)})
    m = {
        'version': 1,
        'setup_cmd': './setup.sh',
        'hooks': {
            'guard': 'dandavison_delta_verif',
            'enable': 'none needed: static analysis reads /repo as built by `cargo +nightly check`; no instrumentation is compiled in',
            'baseline_off_cmd': 'cd /repo && cargo test --workspace --no-fail-fast --offline',
            'source_commits': [],
            'add_only': True,
        },
        'engines': [
            {'name': 'dv', 'path': 'dv/', 'serves_properties': sorted(CLAIMED),
             'kind_free_text': 'rustc_private MIR fact extractor (driver/) + Python rule engines over the resolved program: '
                               'CFG dominance / must-call / who-may-* / guarded-by rules, abstract interpreter for the line state machine, table agreement, hash-order lint'},
        ],
        'checks': checks,
        'not_applicable': na,
        'notes': 'All checks are static analysis of /repo\'s current working tree (re-extracted on every run, cached by content hash). See DESIGN.md.',
    }
    with open(os.path.join(V, 'MANIFEST.json'), 'w') as fh:
        json.dump(m, fh, indent=1)
        fh.write('\n')

if __name__ == '__main__':
    main()
