#![feature(rustc_private)]
extern crate rustc_abi;
extern crate rustc_driver;
extern crate rustc_hir;
extern crate rustc_interface;
extern crate rustc_middle;
extern crate rustc_span;

use rustc_driver::Compilation;
use rustc_hir::def::DefKind;
use rustc_hir::def_id::{DefId, LOCAL_CRATE};
use rustc_middle::mir::{
    self, AggregateKind, BasicBlock, Body, Const, Operand, Place, ProjectionElem, Rvalue,
    StatementKind, TerminatorKind,
};
use rustc_middle::ty::{self, Instance, Ty, TyCtxt, TypingEnv};
use rustc_span::Span;
use std::fmt::Write as _;

// ---------- tiny JSON ----------
enum J {
    Null,
    B(bool),
    N(i128),
    S(String),
    A(Vec<J>),
    O(Vec<(&'static str, J)>),
}
fn esc(s: &str, out: &mut String) {
    out.push('"');
    for c in s.chars() {
        match c {
            '"' => out.push_str("\\\""),
            '\\' => out.push_str("\\\\"),
            '\n' => out.push_str("\\n"),
            '\r' => out.push_str("\\r"),
            '\t' => out.push_str("\\t"),
            c if (c as u32) < 0x20 => {
                let _ = write!(out, "\\u{:04x}", c as u32);
            }
            c => out.push(c),
        }
    }
    out.push('"');
}
impl J {
    fn w(&self, out: &mut String) {
        match self {
            J::Null => out.push_str("null"),
            J::B(b) => out.push_str(if *b { "true" } else { "false" }),
            J::N(n) => {
                let _ = write!(out, "{}", n);
            }
            J::S(s) => esc(s, out),
            J::A(v) => {
                out.push('[');
                for (i, x) in v.iter().enumerate() {
                    if i > 0 {
                        out.push(',');
                    }
                    x.w(out);
                }
                out.push(']');
            }
            J::O(v) => {
                out.push('{');
                for (i, (k, x)) in v.iter().enumerate() {
                    if i > 0 {
                        out.push(',');
                    }
                    esc(k, out);
                    out.push(':');
                    x.w(out);
                }
                out.push('}');
            }
        }
    }
}
fn s<T: ToString>(x: T) -> J {
    J::S(x.to_string())
}

// ---------- extraction ----------
struct Cx<'tcx> {
    tcx: TyCtxt<'tcx>,
}

impl<'tcx> Cx<'tcx> {
    fn path(&self, did: DefId) -> String {
        self.tcx.def_path_str(did)
    }
    fn span(&self, sp: Span) -> J {
        let sm = self.tcx.sess.source_map();
        let mut o = vec![("at", s(sm.span_to_diagnostic_string(sp)))];
        if sp.from_expansion() {
            let cs = sp.source_callsite();
            o.push(("callsite", s(sm.span_to_diagnostic_string(cs))));
            let ed = sp.ctxt().outer_expn_data();
            // walk to outermost expansion
            let mut name = ed.kind.descr();
            let mut cur = sp;
            loop {
                let d = cur.ctxt().outer_expn_data();
                if d.is_root() {
                    break;
                }
                name = d.kind.descr();
                if !d.call_site.from_expansion() {
                    break;
                }
                cur = d.call_site;
            }
            o.push(("macro", s(name)));
            if let Ok(snip) = sm.span_to_snippet(cs) {
                if snip.len() < 600 {
                    o.push(("snippet", s(snip)));
                }
            }
        }
        J::O(o)
    }
    fn place(&self, body: &Body<'tcx>, pl: &Place<'tcx>) -> J {
        let tcx = self.tcx;
        let mut projs = Vec::new();
        let mut pty = mir::PlaceTy::from_ty(body.local_decls[pl.local].ty);
        for elem in pl.projection.iter() {
            let j = match elem {
                ProjectionElem::Deref => J::A(vec![s("deref")]),
                ProjectionElem::Field(f, fty) => {
                    let (adt, name) = match pty.ty.kind() {
                        ty::Adt(def, _) => {
                            let v = match pty.variant_index {
                                Some(vi) => def.variant(vi),
                                None => def.non_enum_variant(),
                            };
                            (self.path(def.did()), v.fields[f].name.to_string())
                        }
                        ty::Tuple(_) => ("(tuple)".to_string(), f.index().to_string()),
                        ty::Closure(did, _) => (format!("(closure {})", self.path(*did)), f.index().to_string()),
                        _ => ("(?)".to_string(), f.index().to_string()),
                    };
                    J::A(vec![s("field"), J::N(f.index() as i128), s(adt), s(name), s(fty)])
                }
                ProjectionElem::Downcast(name, vi) => J::A(vec![
                    s("downcast"),
                    s(name.map(|n| n.to_string()).unwrap_or_default()),
                    J::N(vi.index() as i128),
                ]),
                ProjectionElem::Index(l) => J::A(vec![s("index"), J::N(l.index() as i128)]),
                ProjectionElem::ConstantIndex { offset, from_end, .. } => {
                    J::A(vec![s("cindex"), J::N(offset as i128), J::B(from_end)])
                }
                ProjectionElem::Subslice { from, to, from_end } => {
                    J::A(vec![s("subslice"), J::N(from as i128), J::N(to as i128), J::B(from_end)])
                }
                _ => J::A(vec![s("other")]),
            };
            projs.push(j);
            pty = pty.projection_ty(tcx, elem);
        }
        J::O(vec![("l", J::N(pl.local.index() as i128)), ("p", J::A(projs))])
    }
    fn konst(&self, c: &mir::ConstOperand<'tcx>) -> J {
        let tcx = self.tcx;
        let ty = c.const_.ty();
        let mut o = vec![("ty", s(ty)), ("repr", s(format!("{}", c.const_)))];
        if let ty::FnDef(did, args) = ty.kind() {
            o.push(("fn", s(tcx.def_path_str_with_args(*did, args))));
            o.push(("fn_path", s(self.path(*did))));
        }
        if let Const::Unevaluated(uv, _) = c.const_ {
            if let Some(p) = uv.promoted {
                o.push(("promoted", J::N(p.index() as i128)));
            } else {
                o.push(("unevaluated", s(self.path(uv.def))));
            }
        }
        J::O(vec![("const", J::O(o))])
    }
    fn operand(&self, body: &Body<'tcx>, op: &Operand<'tcx>) -> J {
        match op {
            Operand::Copy(p) => J::O(vec![("copy", self.place(body, p))]),
            Operand::Move(p) => J::O(vec![("move", self.place(body, p))]),
            Operand::Constant(c) => self.konst(c),
            _ => J::O(vec![("other", s(format!("{:?}", op)))]),
        }
    }
    fn rvalue(&self, body: &Body<'tcx>, rv: &Rvalue<'tcx>) -> J {
        match rv {
            Rvalue::Use(op, _) => J::A(vec![s("use"), self.operand(body, op)]),
            Rvalue::Ref(_, bk, p) => J::A(vec![
                s("ref"),
                s(if matches!(bk, mir::BorrowKind::Mut { .. }) { "mut" } else { "shared" }),
                self.place(body, p),
            ]),
            Rvalue::RawPtr(_, p) => J::A(vec![s("rawptr"), self.place(body, p)]),
            Rvalue::Cast(k, op, ty) => {
                J::A(vec![s("cast"), s(format!("{:?}", k)), self.operand(body, op), s(ty)])
            }
            Rvalue::BinaryOp(op, ab) => J::A(vec![
                s("binop"),
                s(format!("{:?}", op)),
                self.operand(body, &ab.0),
                self.operand(body, &ab.1),
            ]),
            Rvalue::UnaryOp(op, a) => {
                J::A(vec![s("unop"), s(format!("{:?}", op)), self.operand(body, a)])
            }
            Rvalue::Discriminant(p) => {
                let mut v = vec![s("discr"), self.place(body, p)];
                let pty = p.ty(&body.local_decls, self.tcx).ty;
                if let ty::Adt(def, _) = pty.kind() {
                    if def.is_enum() && def.variants().len() <= 80 {
                        v.push(s(self.path(def.did())));
                        let vars: Vec<J> = def
                            .variants()
                            .iter_enumerated()
                            .map(|(vi, var)| {
                                J::A(vec![
                                    s(def.discriminant_for_variant(self.tcx, vi).val),
                                    s(var.name),
                                ])
                            })
                            .collect();
                        v.push(J::A(vars));
                    }
                }
                J::A(v)
            }
            Rvalue::CopyForDeref(p) => J::A(vec![s("copyderef"), self.place(body, p)]),
            Rvalue::Aggregate(kind, ops) => {
                let k = match &**kind {
                    AggregateKind::Tuple => J::A(vec![s("tuple")]),
                    AggregateKind::Array(_) => J::A(vec![s("array")]),
                    AggregateKind::Adt(did, vi, _, _, _) => {
                        let def = self.tcx.adt_def(*did);
                        J::A(vec![
                            s("adt"),
                            s(self.path(*did)),
                            J::N(vi.index() as i128),
                            s(def.variant(*vi).name),
                            J::A(def.variant(*vi).fields.iter().map(|f| s(f.name)).collect()),
                        ])
                    }
                    AggregateKind::Closure(did, _) => J::A(vec![s("closure"), s(self.path(*did))]),
                    _ => J::A(vec![s("other")]),
                };
                J::A(vec![
                    s("agg"),
                    k,
                    J::A(ops.iter().map(|o| self.operand(body, o)).collect()),
                ])
            }
            Rvalue::Repeat(op, _) => J::A(vec![s("repeat"), self.operand(body, op)]),
            _ => J::A(vec![s("other"), s(format!("{:?}", rv))]),
        }
    }
    fn bb(b: BasicBlock) -> J {
        J::N(b.index() as i128)
    }
    fn body(&self, did: DefId, body: &Body<'tcx>) -> J {
        let tcx = self.tcx;
        let tenv = TypingEnv::post_analysis(tcx, did);
        let mut blocks = Vec::new();
        for (_, data) in body.basic_blocks.iter_enumerated() {
            let mut stmts = Vec::new();
            for st in &data.statements {
                match &st.kind {
                    StatementKind::Assign(b) => {
                        stmts.push(J::A(vec![
                            s("assign"),
                            self.place(body, &b.0),
                            self.rvalue(body, &b.1),
                        ]));
                    }
                    StatementKind::SetDiscriminant { place, variant_index } => {
                        stmts.push(J::A(vec![
                            s("setdiscr"),
                            self.place(body, place),
                            J::N(variant_index.index() as i128),
                        ]));
                    }
                    StatementKind::StorageDead(l) => {
                        stmts.push(J::A(vec![s("dead"), J::N(l.index() as i128)]));
                    }
                    _ => {}
                }
            }
            let term = data.terminator();
            let t = match &term.kind {
                TerminatorKind::Goto { target } => J::A(vec![s("goto"), Self::bb(*target)]),
                TerminatorKind::SwitchInt { discr, targets } => {
                    let arms: Vec<J> = targets
                        .iter()
                        .map(|(v, b)| J::A(vec![J::N(v as i128), Self::bb(b)]))
                        .collect();
                    J::A(vec![
                        s("switch"),
                        self.operand(body, discr),
                        J::A(arms),
                        Self::bb(targets.otherwise()),
                    ])
                }
                TerminatorKind::Return => J::A(vec![s("return")]),
                TerminatorKind::Unreachable => J::A(vec![s("unreachable")]),
                TerminatorKind::UnwindResume => J::A(vec![s("resume")]),
                TerminatorKind::UnwindTerminate(_) => J::A(vec![s("terminate")]),
                TerminatorKind::Drop { place, target, unwind, .. } => J::A(vec![
                    s("drop"),
                    self.place(body, place),
                    Self::bb(*target),
                    match unwind {
                        mir::UnwindAction::Cleanup(b) => Self::bb(*b),
                        _ => J::Null,
                    },
                    s(place.ty(&body.local_decls, tcx).ty),
                ]),
                TerminatorKind::Assert { cond, expected, msg, target, .. } => J::A(vec![
                    s("assert"),
                    s(format!("{:?}", msg).chars().take(60).collect::<String>()),
                    self.operand(body, cond),
                    J::B(*expected),
                    Self::bb(*target),
                    self.span(term.source_info.span),
                ]),
                TerminatorKind::Call { func, args, destination, target, unwind, fn_span, .. } => {
                    let fty = func.ty(&body.local_decls, tcx);
                    let mut o: Vec<(&'static str, J)> = Vec::new();
                    if let ty::FnDef(cdid, substs) = fty.kind() {
                        o.push(("callee", s(self.path(*cdid))));
                        o.push(("callee_full", s(tcx.def_path_str_with_args(*cdid, substs))));
                        let resolved = Instance::try_resolve(tcx, tenv, *cdid, substs).ok().flatten();
                        if let Some(i) = resolved {
                            let rd = i.def_id();
                            o.push(("resolved", s(self.path(rd))));
                            o.push(("resolved_local", J::B(rd.is_local())));
                            o.push(("resolved_full", s(tcx.def_path_str_with_args(rd, i.args))));
                        }
                        o.push(("callee_local", J::B(cdid.is_local())));
                    } else {
                        o.push(("indirect", s(fty)));
                        o.push(("func", self.operand(body, func)));
                    }
                    o.push((
                        "args",
                        J::A(args.iter().map(|a| self.operand(body, &a.node)).collect()),
                    ));
                    o.push(("dest", self.place(body, destination)));
                    o.push(("dest_ty", s(destination.ty(&body.local_decls, tcx).ty)));
                    o.push(("target", target.map(Self::bb).unwrap_or(J::Null)));
                    o.push((
                        "unwind",
                        match unwind {
                            mir::UnwindAction::Cleanup(b) => Self::bb(*b),
                            _ => J::Null,
                        },
                    ));
                    o.push(("span", self.span(*fn_span)));
                    o.push(("tspan", self.span(term.source_info.span)));
                    J::A(vec![s("call"), J::O(o)])
                }
                other => J::A(vec![s("otherterm"), s(format!("{:?}", other).chars().take(80).collect::<String>())]),
            };
            blocks.push(J::O(vec![
                ("s", J::A(stmts)),
                ("t", t),
                ("cleanup", J::B(data.is_cleanup)),
            ]));
        }
        let locals: Vec<J> = body
            .local_decls
            .iter()
            .map(|d| s(d.ty))
            .collect();
        let mut names = Vec::new();
        for vdi in &body.var_debug_info {
            if let mir::VarDebugInfoContents::Place(p) = &vdi.value {
                names.push(J::A(vec![s(vdi.name), self.place(body, p)]));
            }
        }
        J::O(vec![
            ("arg_count", J::N(body.arg_count as i128)),
            ("locals", J::A(locals)),
            ("names", J::A(names)),
            ("blocks", J::A(blocks)),
            ("span", self.span(body.span)),
        ])
    }
    fn ty_adts(&self, _t: Ty<'tcx>) {}
}

struct Cb;
impl rustc_driver::Callbacks for Cb {
    fn after_analysis<'tcx>(
        &mut self,
        _c: &rustc_interface::interface::Compiler,
        tcx: TyCtxt<'tcx>,
    ) -> Compilation {
        let cx = Cx { tcx };
        let crate_name = tcx.crate_name(LOCAL_CRATE).to_string();
        let out = std::env::var("E0_OUT").expect("E0_OUT must be set");
        let mut bodies = Vec::new();
        let mut n = 0;
        for ldid in tcx.hir_body_owners() {
            let did = ldid.to_def_id();
            let kind = tcx.def_kind(did);
            let is_fn = matches!(kind, DefKind::Fn | DefKind::AssocFn | DefKind::Closure);
            let is_const = matches!(kind, DefKind::Const { .. } | DefKind::Static { .. } | DefKind::AssocConst { .. });
            if !is_fn && !is_const {
                continue;
            }
            n += 1;
            let body = if is_fn { tcx.optimized_mir(did) } else { tcx.mir_for_ctfe(did) };
            let mut o = vec![
                ("path", s(cx.path(did))),
                ("kind", s(format!("{:?}", kind))),
                ("mir", cx.body(did, body)),
            ];
            let prom = tcx.promoted_mir(did);
            if is_fn && !prom.is_empty() {
                o.push(("promoted", J::A(prom.iter().map(|b| cx.body(did, b)).collect())));
            }
            let fty = tcx.type_of(did).instantiate_identity().skip_norm_wip();
            o.push(("ty", s(fty)));
            bodies.push(J::O(o));
        }
        // ADTs
        let mut adts = Vec::new();
        for id in tcx.hir_free_items() {
            let did = id.owner_id.to_def_id();
            if matches!(tcx.def_kind(did), DefKind::Struct | DefKind::Enum) {
                let def = tcx.adt_def(did);
                let vars: Vec<J> = def
                    .variants()
                    .iter_enumerated()
                    .map(|(vi, v)| {
                        J::O(vec![
                            ("name", s(v.name)),
                            ("idx", J::N(vi.index() as i128)),
                            ("discr", if def.is_enum() { s(def.discriminant_for_variant(tcx, vi).val) } else { J::Null }),
                            (
                                "fields",
                                J::A(v
                                    .fields
                                    .iter()
                                    .map(|f| {
                                        J::A(vec![
                                            s(f.name),
                                            s(tcx.type_of(f.did).instantiate_identity().skip_norm_wip()),
                                        ])
                                    })
                                    .collect()),
                            ),
                        ])
                    })
                    .collect();
                adts.push(J::O(vec![
                    ("path", s(cx.path(did))),
                    ("is_enum", J::B(def.is_enum())),
                    ("variants", J::A(vars)),
                ]));
            }
        }
        let root = J::O(vec![
            ("crate", s(&crate_name)),
            ("nonce", s(std::env::var("E0_NONCE").unwrap_or_default())),
            ("n_bodies", J::N(n)),
            ("adts", J::A(adts)),
            ("bodies", J::A(bodies)),
        ]);
        let mut outs = String::new();
        root.w(&mut outs);
        std::fs::write(format!("{}.{}.json", out, crate_name), outs).unwrap();
        Compilation::Continue
    }
}

fn main() {
    let mut args: Vec<String> = std::env::args().collect();
    args.remove(1);
    rustc_driver::run_compiler(&args, &mut Cb);
}
