#!/usr/bin/env python3
"""Prepare a scratch worktree + prompt for a seeding sub-agent: mkseed.py <id e.g. C08b> <prop> [focus text]
The prompt contains only the property record (and, optionally, which clause of its own statement to aim at)."""
import json, os, subprocess, sys
V = os.path.dirname(os.path.dirname(os.path.abspath(__file__)))
sid, prop = sys.argv[1], sys.argv[2]
focus = sys.argv[3] if len(sys.argv) > 3 else ''
root = '/tmp/seed'
os.makedirs(root, exist_ok=True)
wt = os.path.join(root, sid)
rec = next(json.loads(l) for l in open(os.path.join(V, 'properties.jsonl')) if l.strip() and json.loads(l)['id'] == prop)
for k in ('added_in_round', 'source'):
    rec.pop(k, None)
if not os.path.exists(wt):
    subprocess.check_call(['git', '-C', '/repo', 'worktree', 'add', '--detach', wt, 'HEAD'], stdout=subprocess.DEVNULL)
    subprocess.check_call(['rsync', '-a', '--exclude', 'incremental', '/repo/target/debug', wt + '/target/'])
os.makedirs(wt + '.out', exist_ok=True)
tmpl = open(os.path.join(V, 'seeded', 'PROMPT-example.txt')).read()
head, rest = tmpl.split('\n{\n', 1)
_, tail = rest.split('\n}\n\nTASK:', 1)
txt = head + '\n' + json.dumps(rec, indent=1) + '\n\nTASK:' + tail
txt = txt.replace('C08a', sid)
if focus:
    txt = txt.replace('TASK: make a source change', 'FOCUS: aim at this part of the statement: ' + focus + '\n\nTASK: make a source change')
open(os.path.join(root, 'prompt-%s.txt' % sid), 'w').write(txt)
print(wt)
