#!/usr/bin/env python3
"""tools/targeted.py <json {check: [patch paths]}> <k> <n>: run only the named checks on the patches that touch the code those checks
read (used after a rule was added late: silence on the stored behaviour-preserving patches). DV_REPO must be a scratch worktree."""
import json, os, subprocess, sys
V = os.path.dirname(os.path.dirname(os.path.abspath(__file__)))
REPO = os.environ['DV_REPO']
sel = json.load(open(sys.argv[1])); k, n = int(sys.argv[2]), int(sys.argv[3])
by_patch = {}
for chk, ps in sel.items():
    for p in ps:
        by_patch.setdefault(p, []).append(chk)
out = {}
for idx, p in enumerate(sorted(by_patch)):
    if idx % n != k:
        continue
    if subprocess.run(['git', '-C', REPO, 'apply', p]).returncode != 0:
        print(p, 'DOES NOT APPLY', flush=True); out[p] = 'does-not-apply'; continue
    try:
        alarms = {}
        for chk in sorted(by_patch[p]):
            r = subprocess.run([os.path.join(V, 'check'), chk], capture_output=True, text=True, cwd=V)
            if r.returncode != 0 or 'VIOLATION' in r.stdout:
                alarms[chk] = [l.strip() for l in r.stdout.splitlines() if l.strip().startswith(chk + ' [')][:3] or [r.stdout[-200:] + r.stderr[-200:]]
    finally:
        subprocess.check_call(['git', '-C', REPO, 'checkout', '--', '.'])
        subprocess.call(['git', '-C', REPO, 'clean', '-fdq', 'src'])
    out[p] = alarms
    print(os.path.relpath(p, V), sorted(by_patch[p]), 'SILENT' if not alarms else 'ALARM %s' % json.dumps(alarms)[:600], flush=True)
json.dump(out, open(os.path.join(V, 'benign', 'results-targeted-%d.json' % k), 'w'), indent=1)
