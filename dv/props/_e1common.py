"""Shared glue between the E1 engine and the property modules that use it."""
from .. import e1pool

ASSUMPTIONS = [
    'A1 git extended-header lines (old/new mode, deleted/new file mode, rename/copy from/to) arrive only in the file-header state',
    'A2 `-Subproject commit` arrives only directly after a hunk header with nothing buffered; `+Subproject commit` only directly after it',
    'A4 a hunk has at least one body line: the line after a hunk header is not a section starter (`@@`, `diff `, commit line, `Submodule `, '
    '`Binary files `, `Only in `, and for non-git sources `--- `)',
    'A5 for `diff -u` sources, file names are non-empty while in a hunk',
    'A6 the input does not end, and no new section starts, inside an unterminated merge-conflict region',
    'A8 a section with a pending mode-change header reaches its first hunk only through `---`/`+++` lines',
    'A9 (when file headers are handled) every hunk is preceded by the `+++`/`rename to` line of its section',
    'A11 within one file section of git output the names on the `---`/`+++` lines are the names on its rename/copy lines (a pair already recorded as handled stays equal when it is refreshed); '
    '`Submodule` / `Only in` lines do not occur inside a section that has mode-change lines pending (extension of A8)',
    'writes to the output stream succeed (the Err edge of `?` on io::Result is C18\'s business)',
    'config values are constants of a run; color_only, merge-conflict handling and the file-style rawness are pinned per analysis mode; '
    'file_style.is_omitted is pinned false (with an omitted file style the header writer returns before any write)',
    'payloads of State and string contents are not tracked: ordering / exactly-once / flush discipline is decided, not character-level integrity',
]


def runs(F, census_hash, modes):
    return e1pool.get_runs(F, census_hash, modes)


def add_e1(res, runs_, rules, prop, fn_filter=None, desc=''):
    """fold E1 violations of the given rules (from all given runs) into res; returns number of events checked"""
    seen = set()
    total = 0
    for mode, r in runs_.items():
        ev = r['summary']['events']
        total += sum(ev.values())
        for v in r['violations']:
            if v['rule'] not in rules:
                continue
            if fn_filter and not fn_filter(v):
                continue
            key = 'fn=%s;callee=%s;facet=%s' % (v['fn'], v['callee'], v['facet'])
            if (v['rule'], key) in seen:
                continue
            seen.add((v['rule'], key))
            res.violate(v['rule'], key, v['what'] + ' [mode %s; first abstract state: %s; e.g. via %s]' % (
                mode, v['first_state'], v['via'][0][0] if v['via'] else '-'),
                where=v['site'] or v['fn'], detail={'mode': mode, 'via': v['via'], 'classes': v['classes'][:12]})
    return total


def evidence(res, runs_):
    res.extra['e1'] = {m: r['summary'] for m, r in runs_.items()}
    for m, r in runs_.items():
        for lo in r['line_outcomes'][:4]:
            res.samples.append({'mode': m, 'line_instance': {'state_before': lo[0][0], 'line_class': lo[0][1], 'state_after': lo[0][2],
                                                            'consumed': lo[0][3], 'newlines': lo[0][4], 'deferred': lo[0][5]}})
        for g in r['loophead'][:3]:
            res.samples.append({'mode': m, 'loop_head_state': g})
    res.distinct.update('%s:%s' % (m, g) for m, r in runs_.items() for g in r['loophead'])
