"""C14 — one header per file section (right file) and one per hunk (structural part)."""
from . import _e1common as E
from .. import rules as Ru
from ..facts import callee_of, callee_full, reach

EXPLANATION = (
    "HUNK-HDR (E1, modes N/H/R): the hunk header captured into State::HunkHeader is handed to an emitter before the handler that leaves "
    "that state returns, on every path (exempt: the Subproject short form, which replaces the hunk by `old..new` by design); and the "
    "ordering rule ORD-W puts every header write after the previous section's lines. PAIRING (MIR rule): every call of the function that "
    "composes the file header from minus_file/plus_file and the two events is control-dependent on the `handled != current` edge and is "
    "followed on every non-error path by `handled := current`. RIGHT-FILE (MIR rule): the path handed to the hunk-header writer is "
    "minus_file exactly on the edge where plus_file == \"/dev/null\", plus_file otherwise.")

SM = 'delta::StateMachine'
HANDLED = 'handled_diff_header_header_line_file_pair'
CURRENT = 'current_file_pair'


def run(F, tier, res):
    from .. import extract
    _, h, _ = extract.facts_path()
    modes = ['N', 'H'] if tier == 'quick' else ['N', 'H', 'R', 'C']
    R = E.runs(F, h, modes)
    res.assumptions += E.ASSUMPTIONS
    res.not_decided += ['path parsing (quotes, spaces, prefixes), labels, mode/binary annotations: value-level',
                        'that exactly one header is printed when file headers are not handled (raw file style): see known limitation F15b in DESIGN.md']
    E.add_e1(res, R, {'DROP-HDR', 'HDR-TWICE', 'HDR-UNGUARDED'}, 'C14')
    header_writers = set()
    for p in F.fn_bodies:
        pass
    N = R['N']
    res.rule('C14.HUNK-HDR', N['summary']['events'].get('CAPTURE_HDR', 0) + N['summary']['events'].get('HDR_HUNK_HANDOFF', 0), 100,
             'captures of a hunk header into the state + hand-offs to an emitter explored by E1 (every exit of a handler leaving HunkHeader checked)')
    # ORD-W on header writers: the functions that write with minus_file/plus_file/hh payload provenance = any direct write reached from
    # the composer or the emitter; here: ORD-W violations whose frames include the composer / pending writer
    composers = []
    for p in F.fn_bodies:
        mir = F.bodies[p]['mir']
        if not any('StateMachine' in mir['locals'][i] for i in range(1, mir['arg_count'] + 1)):
            continue
        flds = set()
        for blk in mir['blocks']:
            for st in blk['s']:
                if st[0] == 'assign':
                    for pl in [st[1]] + [x for x in st[2][1:] if isinstance(x, dict) and 'l' in x] + \
                            [x.get('copy') or x.get('move') for x in st[2][1:] if isinstance(x, dict) and ('copy' in x or 'move' in x)]:
                        flds |= {pr[3] for pr in pl['p'] if pr[0] == 'field' and pr[2] == SM}
        if {'minus_file', 'plus_file', 'minus_file_event', 'plus_file_event'} <= flds and not Ru.field_writes(F, p, SM, 'minus_file') \
                and not Ru.field_writes(F, p, SM, 'plus_file'):
            composers.append(p)
    if not composers:
        res.anchor_missing('file-header composer (reads minus_file, plus_file and both events)')
        return res
    E.add_e1(res, R, {'ORD-W'}, 'C14', fn_filter=lambda v: any(c in v['frames'] for c in composers) or any(
        f in v['frames'] for c in composers for f in F.reachable_from([c])))
    # predicates that imply "handled != current" when true: bool functions of the state machine whose result is either the
    # constant false or the comparison itself (`cond && handled != current`): extract-function refactorings of the guard
    def _cmp_fields(fn, r):
        fl = set()
        for a in r[4]['args'][:2]:
            for rr in F.trace(fn, a):
                if rr[0] in ('param', 'local') and rr[2]:
                    fl.add(rr[2][-1])
        return fl
    pending_preds = set()
    for q, b_ in F.fn_bodies.items():
        if b_['mir']['locals'][0] != 'bool':
            continue
        roots = F.trace(q, {'copy': {'l': 0, 'p': []}})
        cmpc = [r for r in roots if r[0] == 'call' and r[1].endswith(('::ne', '::eq')) and {HANDLED, CURRENT} <= _cmp_fields(q, r)]
        if not cmpc:
            continue
        nots = sum(1 for r in roots if r[0] == 'unop' and r[1] == 'Not')
        others = [r for r in roots if r[0] == 'call' and r not in cmpc] + [r for r in roots if r[0] == 'const' and 'true' in str(r[1])]
        is_ne = cmpc[0][1].endswith('::ne')
        if not others and (is_ne == (nots % 2 == 0)):
            pending_preds.add(q)

    def guarded_site(fn, i):
        for (sb, op, arms, other) in Ru.switches(F, fn):
            roots = F.trace(fn, op)
            cmpc = [r for r in roots if r[0] == 'call' and (r[1].endswith('::ne') or r[1].endswith('::eq'))]
            hit = None
            for r in cmpc:
                if {HANDLED, CURRENT} <= _cmp_fields(fn, r):
                    hit = r
            pred = [r for r in roots if r[0] == 'call' and ((r[4].get('resolved') or '') in pending_preds or r[1] in pending_preds)]
            if not hit and not pred:
                continue
            neg = Ru.negations(F, fn, op) % 2 == 1
            tt, ft = Ru.bool_edges(arms, other)
            if hit:
                is_ne = hit[1].endswith('::ne')
                differ = tt if (is_ne != neg) else ft
            else:
                differ = ft if neg else tt
            if differ is not None and (Ru.edge_dominates(F, fn, sb, differ, i) or differ == i):
                return True
        return False

    def site_ok(fn, i, depth=0):
        if guarded_site(fn, i):
            return True
        if depth >= 2:
            return False
        callers = [(q, j) for q in F.fn_bodies for j, cc in F.calls(q) if callee_of(cc) == fn or (cc.get('resolved') or '') == fn]
        return bool(callers) and all(site_ok(q, j, depth + 1) for (q, j) in callers)

    # composition points: a call that is handed the two names and the two events (the formatter of the header text), wherever it sits;
    # or, for a composer that formats inline, the calls of that composer
    NAMES4 = {'minus_file', 'plus_file', 'minus_file_event', 'plus_file_event'}
    argsites = []
    for p in sorted(F.fn_bodies):
        mir = F.bodies[p]['mir']
        if not (mir['arg_count'] >= 1 and 'StateMachine' in mir['locals'][1]):
            continue
        for i, c in F.calls(p):
            got = set()
            for a in c['args']:
                for r in F.trace(p, a):
                    if r[0] == 'param' and r[1] == 1 and r[2]:
                        got |= NAMES4 & set(r[2])
            if got == NAMES4:
                argsites.append((p, i, c))
    argfns = {p for (p, _, _) in argsites}
    inline_composers = [m for m in composers if m not in argfns and not (set(F.reachable_from([m])) & argfns)]
    sites = list(argsites) + [(p, i, c) for p in sorted(F.fn_bodies) for i, c in F.calls(p) if callee_of(c) in inline_composers]

    def _marks(fn):
        from .c10 import _must_assign
        marks = [bb for (bb, chain, kind, payload) in Ru.field_writes(F, fn, None, HANDLED) if kind.startswith('mutcall:clone_from') or kind == 'assign']
        # ... or through a setter method that records the pair on every one of its paths
        marks += [j for j, cj in F.calls(fn) if _must_assign(F, callee_of(cj) if callee_of(cj) in F.fn_bodies else (cj.get('resolved') or ''), HANDLED, 0)]
        return marks

    def mark_ok(fn, start, depth=0):
        """handled := current on every path from `start` to the function's return; a helper that composes and writes without marking
        is judged at each of its call sites"""
        errexits = [bb for bb, cc in F.calls(fn) if 'from_residual' in callee_of(cc)]
        if start is None:
            return True
        if not Ru.must_pass(F, fn, start, set(_marks(fn)) | set(errexits)):
            return True
        if depth >= 2 or _marks(fn):
            return False
        callers = [(q, cc) for q in F.fn_bodies for j, cc in F.calls(q) if callee_of(cc) == fn or (cc.get('resolved') or '') == fn]
        return bool(callers) and all(mark_ok(q, cc['target'], depth + 1) for (q, cc) in callers)

    n = ok = 0
    for (p, i, c) in sites:
            n += 1
            good = True
            # (a) guarded by the differ edge (here, or at every call site of this function when it is a write-and-mark helper)
            guarded = site_ok(p, i)
            if not guarded:
                # the decision may be coded in a way the structural matcher does not read (an enum-returning classifier, ...): the
                # abstract interpreter establishes the same fact semantically - at every entry of the composer `handled != current`
                # holds on the path taken (rule HDR-UNGUARDED, all modes explored)
                e1_unguarded = [v for m_, r_ in R.items() for v in r_['violations'] if v['rule'] == 'HDR-UNGUARDED']
                composed = sum(r_['summary']['events'].get('HDR_COMPOSED', 0) for r_ in R.values())
                if composed > 0 and not e1_unguarded:
                    guarded = True
            if not guarded:
                good = False
                res.violate('PAIRING', 'fn=%s;guard' % p, 'the file header is composed and written without checking that it has not been written '
                            'for this file pair already: a renamed-with-changes file gets two headers', where=F.span_of_call(c))
            # (b) followed by handled := current
            if not mark_ok(p, c['target']):
                good = False
                res.violate('PAIRING', 'fn=%s;mark' % p, 'after writing the file header the pair is not recorded as handled on every path: the header is written again later',
                            where=F.span_of_call(c))
            if good:
                ok += 1
    res.rule('C14.PAIRING', n, 1, 'composition points of the file header (in %s): guarded by handled != current, followed by handled := current' % sorted({p_.split('::')[-1] for (p_, _, _) in sites}), discharged=ok)
    # REARM: a write to current_file_pair re-arms the `handled != current` test. Outside the per-section reset (which also clears
    # `handled`), every such write must be followed, on every path to the function's return, by the header decision itself (the
    # comparison, or a call into the generic header writer's decision function); otherwise a header already written for this
    # section is written again when the pending-header check next runs (next `diff` line, commit line, end of input).
    def has_cmp(fn):
        for j, cc in F.calls(fn):
            if callee_of(cc).endswith(('::ne', '::eq')):
                fl = set()
                for a in cc['args'][:2]:
                    for rr in F.trace(fn, a):
                        if rr[0] in ('param', 'local') and rr[2]:
                            fl.add(rr[2][-1])
                if {HANDLED, CURRENT} <= fl:
                    return True
        return False
    generic = [q for q in F.fn_bodies if q.endswith('::write_generic_diff_header_header_line')]
    if not generic:
        res.anchor_missing('write_generic_diff_header_header_line')
    deciders = set()
    for q in F.fn_bodies:
        if 'StateMachine' not in ' '.join(F.bodies[q]['mir']['locals'][1:2]):
            continue
        rq = F.reachable_from([q])
        if has_cmp(q) or any(g in rq for g in generic):
            deciders.add(q)
    nr = okr = 0
    for q in sorted(F.fn_bodies):
        ws = [w for w in Ru.field_writes(F, q, None, CURRENT) if w[2] in ('assign', 'call') and w[1] and w[1][-1][1] == CURRENT]
        if not ws:
            continue
        clears_handled = any(w[2] == 'assign' and w[1][-1][1] == HANDLED and w[3][2][0] == 'agg' for w in Ru.field_writes(F, q, None, HANDLED)) or \
            any(w[2] == 'assign' and w[1][-1][1] == HANDLED for w in Ru.field_writes(F, q, None, HANDLED))
        def _fn_clears_handled(fn):
            return any(w_[2] == 'assign' and w_[1][-1][1] == HANDLED for w_ in Ru.field_writes(F, fn, None, HANDLED))

        def _reset_helper(fn, depth=0):
            """a private helper of the per-section reset: every caller clears `handled` itself (or is such a helper)"""
            if depth >= 2:
                return False
            callers = {p_ for p_ in F.fn_bodies for _, c_ in F.calls(p_) if callee_of(c_) == fn or (c_.get('resolved') or '') == fn}
            return bool(callers) and all(_fn_clears_handled(p_) or _reset_helper(p_, depth + 1) for p_ in callers)
        if not clears_handled and _reset_helper(q):
            clears_handled = True
        for w in ws:
            nr += 1
            bb = w[0]
            if clears_handled:
                okr += 1
                continue
            dec = set()
            for j, cc in F.calls(q):
                cal = callee_of(cc)
                if cal in deciders and cal != q:
                    dec.add(j)
                if cal.endswith(('::ne', '::eq')):
                    fl = set()
                    for a in cc['args'][:2]:
                        for rr in F.trace(q, a):
                            if rr[0] in ('param', 'local') and rr[2]:
                                fl.add(rr[2][-1])
                    if {HANDLED, CURRENT} <= fl:
                        dec.add(j)
            errexits = {j for j, cc in F.calls(q) if 'from_residual' in callee_of(cc)}
            S = F.cfg(q)
            miss = Ru.must_pass(F, q, S.get(bb, []), dec | errexits) if bb not in dec else []
            if miss:
                res.violate('REARM', 'fn=%s' % q, 'current_file_pair is rewritten and the handler returns without taking the header decision: a file header already written '
                            'for this section is written a second time when the pending-header check next runs', where=F.bodies[q]['mir']['span']['at'])
            else:
                okr += 1
    res.rule('C14.REARM', nr, 2, 'writes to current_file_pair: in the per-section reset, or followed on every path by the header decision (deciders: %s)' % sorted(d.split('::')[-1] for d in deciders), discharged=okr)
    # RESET-ORDER (shared with C10): the pending header of the previous section is flushed before the fields it reads are overwritten
    from .c10 import reset_order_rule, reset_rule, find_resetters
    rs_, bd_ = find_resetters(F)
    reset_rule(F, res, rs_, 'C14', ['minus_file', 'plus_file', 'minus_file_event', 'plus_file_event', 'current_file_pair', 'handled_diff_header_header_line_file_pair', 'diff_line'])
    reset_order_rule(F, res, rs_, bd_, 'C14')
    # RIGHT-FILE
    n4 = ok4 = 0
    for p in sorted(F.fn_bodies):
        mir = F.bodies[p]['mir']
        if not any('StateMachine' in mir['locals'][i] for i in range(1, mir['arg_count'] + 1)):
            continue
        for (sb, op, arms, other) in Ru.switches(F, p):
            roots = F.trace(p, op)
            eqs = [r for r in roots if r[0] == 'call' and (r[1].endswith('::eq') or r[1].endswith('::ne'))]
            for r in eqs:
                lits = [v for a in r[4]['args'] for v in F.operand_literals(p, a)]
                flds = {rr[2][-1] for a in r[4]['args'] for rr in F.trace(p, a) if rr[0] == 'param' and rr[2]}
                if ('str', '/dev/null') in lits and 'plus_file' in flds:
                    # is the result used to choose between &minus_file and &plus_file ?
                    tt, ft = Ru.bool_edges(arms, other)
                    neg = (Ru.negations(F, p, op) % 2 == 1) != r[1].endswith('::ne')
                    devnull_edge, other_edge = (ft, tt) if neg else (tt, ft)

                    def refs_in(bb):
                        out = set()
                        if bb is None:
                            return out
                        for st in F.blocks(p)[bb]['s']:
                            if st[0] == 'assign' and st[2][0] == 'ref' and st[2][1] == 'shared':
                                for pr in st[2][2]['p']:
                                    if pr[0] == 'field' and pr[2] == SM:
                                        out.add(pr[3])
                        return out
                    a_, b_ = refs_in(devnull_edge), refs_in(other_edge)
                    # a selection: both edges take a reference to one of the two file names
                    if not (a_ & {'minus_file', 'plus_file'}) or not (b_ & {'minus_file', 'plus_file'}):
                        continue
                    n4 += 1
                    if 'minus_file' in a_ and 'plus_file' in b_ and 'plus_file' not in a_ and 'minus_file' not in b_:
                        ok4 += 1
                    else:
                        res.violate('RIGHT-FILE', 'fn=%s' % p, 'the file named in the hunk header is not minus_file exactly when plus_file is /dev/null (got %s on the /dev/null edge, %s otherwise)' % (sorted(a_), sorted(b_)),
                                    where=F.bodies[p]['mir']['span']['at'])
    res.rule('C14.RIGHT-FILE', n4, 1, 'selections between &minus_file and &plus_file on plus_file == "/dev/null"', discharged=ok4)
    # CLASSIFY-RAW: the function that words the header (added / removed / renamed / copied / modified) classifies the section by
    # comparing the two paths as they were read: with "/dev/null" and with each other. The displayed form of a path (after
    # --file-transformation, wrapped in a hyperlink, relativised) must not be what is compared.
    n5 = ok5 = 0
    from ..facts import PROV_PRESERVING_SUFFIXES
    for q in sorted(F.fn_bodies):
        mir = F.bodies[q]['mir']
        tys = [mir['locals'][i] for i in range(1, mir['arg_count'] + 1)]
        if not (sum(1 for t_ in tys if t_ == '&str') >= 2 and sum(1 for t_ in tys if t_.endswith('FileEvent')) >= 2 and 'String' in mir['locals'][0]):
            continue
        spar = [i + 1 for i, t_ in enumerate(tys) if t_ == '&str']
        for i, c in F.calls(q):
            r = callee_of(c)
            if not r.endswith(('::eq', '::ne')) or len(c['args']) < 2:
                continue
            lits = [v[1] for a in c['args'] for v in F.operand_literals(q, a) if v[0] == 'str']
            sides = [F.trace(q, a) for a in c['args'][:2]]
            of_paths = [any(x[0] == 'param' and x[1] in spar for x in rs) for rs in sides]
            derived = [[x for x in rs if x[0] == 'call' and not x[1].endswith(PROV_PRESERVING_SUFFIXES)] for rs in sides]
            is_null_test = '/dev/null' in lits
            if not (is_null_test or all(of_paths) or (any(derived[0]) and any(derived[1]))):
                continue
            # is this a test of the file paths? the /dev/null test, or path against path (raw or derived)
            if not is_null_test and not (all(of_paths) or all(any(x[1] in F.fn_bodies or '{closure' in x[1] for x in d) for d in derived)):
                continue
            n5 += 1
            bad = [x[1].split('::')[-1] for d in derived for x in d]
            if bad:
                res.violate('CLASSIFY-RAW', 'fn=%s;via=%s' % (q, bad[0]), 'the kind of change (added / removed / renamed / modified) is decided by comparing a path that has gone through %s, '
                            'not the path as read: with --hyperlinks or --file-transformation a /dev/null side or a rename is no longer recognised' % bad[0], where=F.span_of_call(c))
            else:
                ok5 += 1
    res.rule('C14.CLASSIFY-RAW', n5, 1, 'path comparisons (with "/dev/null", old against new) in the function wording the file header: operands are the paths as read', discharged=ok5)
    E.evidence(res, R)
    return res
