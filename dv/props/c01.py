"""C01 — every hunk line is shown exactly once, in order (structural part: ordering / exactly-once / flush discipline)."""
from . import _e1common as E

EXPLANATION = (
    "Abstract interpretation (E1) of the real MIR of StateMachine::consume and the 70-odd functions that touch the state machine / "
    "painter, over the finite domain (State variant, Source, subhunk buffers, merge buffer, output buffer, pending header, ...) x "
    "line classes derived from the literals the handlers test. At every inferred event the typestate rules are checked: ORD-W/ORD-B/ORD-M "
    "(nothing rendered or buffered is overtaken by a direct write / append / merge-conflict paint), ORD-P (no removed line is buffered behind waiting added lines), DROP (no buffer cleared unpainted), "
    "ONCE (the hunk-line handler consumes each claimed line exactly once), EOF (nothing held back at end of input), TOTAL (a total "
    "fall-through handler exists). The fixpoint covers inputs of any length; events are recognised by field provenance, not by names.")


def run(F, tier, res):
    modes = ['N', 'H'] if tier == 'quick' else ['N', 'H', 'R', 'C']
    h = None
    from .. import extract
    _, h, _ = extract.facts_path()
    R = E.runs(F, h, modes)
    res.assumptions += E.ASSUMPTIONS
    res.not_decided += ['character-level integrity of a line (prefix removal, tab expansion, truncation mark): runtime values',
                        'that the paint functions render every element of the buffers they are given']
    for m, r in R.items():
        if r['summary']['unmodelled']:
            res.violate('E1-INCOMPLETE', 'mode=%s' % m, 'the abstract interpreter hit an unmodelled construct: %r' % r['summary']['unmodelled'])
    E.add_e1(res, R, {'ORD-W', 'ORD-B', 'ORD-M', 'ORD-P', 'DROP', 'ONCE', 'EOF', 'DECLINE-CONSUME'}, 'C01')
    N = R['N']
    es = N['event_sites']
    res.rule('C01.ORD-W', len(es.get('DIRECT_W', [])), 7, 'direct-write sites (function, callee) reached from consume; each checked in every abstract state reaching it: output_buffer and subhunk buffers empty',
             samples=es.get('DIRECT_W', [])[:4])
    res.rule('C01.FLUSH', len(es.get('FLUSH_W', [])), 1, 'flush sites (writer call carrying output_buffer, followed by clear)', samples=es.get('FLUSH_W', [])[:2])
    res.rule('C01.ORD-B', len(es.get('APPEND_OB', [])), 4, 'append sites on output_buffer; subhunk buffers must be empty or painted', samples=es.get('APPEND_OB', [])[:3])
    res.rule('C01.PAINT/DROP', len(es.get('PAINT_LB', [])) + len(es.get('CLEAR_LB', [])) + len(es.get('CLEAR_MB', [])) + len(es.get('PAINT_MB', [])), 2,
             'paint / clear sites of the subhunk and merge-conflict buffers; every clear preceded by a paint since the last push')
    res.rule('C01.ONCE', N['summary']['once_checked'], 500, 'exits Ok(true) of the hunk-line handler (%s): exactly one consume event on each' % N['summary']['hunk_line_handlers'])
    he = N['handler_exits']
    total = [k[:-5] for k in he if k.endswith('|True') and k[:-5] + '|False' not in he and k[:-5] + '|None' not in he]
    res.rule('C01.TOTAL', len(total), 1, 'handlers all of whose exits claim the line (the fall-through writer): %s' % total, samples=total)
    if len(total) == 0:
        res.violate('TOTAL', 'no-total-handler', 'no handler claims every line it is offered: a line can be claimed by nobody and be dropped')
    res.rule('C01.EOF', N['summary']['exit_states'], 10, 'abstract exit states of consume; all buffers empty in each')
    res.rule('C01.states', N['summary']['loop_head_states'], 100, 'abstract loop-head states x line classes explored (mode N): %d x %d' % (N['summary']['loop_head_states'], N['summary']['classes']))
    # ---------- ARM (MIR rule): for plain `diff -u` input delta counts the old-side lines still to come in the hunk, to tell a removed line
    # `-- x` (shown as `--- x`) from the next file header. The count must be armed from the `@@` line before the next line is read, i.e.
    # inside the call tree of the handler that captures the hunk header: the very first line of the hunk is already offered to the
    # file-header recogniser, and with a stale count it is taken for a header and the hunk is skipped.
    from .. import rules as Ru
    from ..facts import callee_of
    SM, CNT = 'delta::StateMachine', 'minus_line_counter'

    def arming_sites(fn, depth=0):
        out = []
        if fn not in F.fn_bodies or depth > 2:
            return out
        for (bb, chain, kind, payload) in Ru.field_writes(F, fn, None, CNT):
            if kind != 'assign':
                continue
            v = payload[2]
            rts = F.trace(fn, v[1]) if v[0] == 'use' else []
            if any(r[0] == 'call' and r[4]['args'] and not r[1].endswith(('::clone', '::default')) for r in rts):
                out.append(bb)
        for i, c in F.calls(fn):
            q = callee_of(c) if callee_of(c) in F.fn_bodies else (c.get('resolved') or '')
            if q in F.fn_bodies and q != fn and 'StateMachine' in ' '.join(F.bodies[q]['mir']['locals'][1:2]) and arming_sites(q, depth + 1):
                out.append(i)
        return out
    has_counter = any(Ru.field_writes(F, p, None, CNT) for p in F.fn_bodies)
    na = oka = 0
    if has_counter:
        for p in sorted(F.fn_bodies):
            caps = []
            for (bb, chain, kind, payload) in Ru.field_writes(F, p, SM, 'state'):
                if kind != 'assign':
                    continue
                v = payload[2]
                rts = F.trace(p, v[1]) if v[0] == 'use' else ([('agg', v[1])] if v[0] == 'agg' else [])
                if any(r[0] == 'agg' and r[1][0] == 'adt' and r[1][1] == 'delta::State' and r[1][3] == 'HunkHeader' for r in rts):
                    caps.append(bb)
            if not caps or p.endswith('::clone'):
                continue
            na += 1
            if arming_sites(p):
                oka += 1
            else:
                res.violate('ARM', 'fn=%s' % p, 'the handler that captures a hunk header does not arm the count of old-side lines to come (minus_line_counter) from that header: '
                            'when it is armed later (or not at all) the first line of a `diff -u` hunk, if it reads `--- x`, is taken for a file header and the hunk is dropped',
                            where=F.bodies[p]['mir']['span']['at'])
        res.rule('C01.ARM', na, 1, 'functions storing State::HunkHeader: each arms minus_line_counter from the header (directly or in a state-machine helper)', discharged=oka)
    E.evidence(res, R)
    return res
