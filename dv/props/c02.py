"""C02 — --color-only is a line-for-line filter."""
from . import _e1common as E
from .. import rules as Ru
from ..facts import callee_of

EXPLANATION = (
    "Two parts. C02-a (MIR rules on option processing): at the end of set_options, on the true edge of a branch on opt.color_only, "
    "side_by_side is forced to false and the three *_decoration_style options to \"none\", on every path to the return and with no "
    "later write. C02-b (abstract interpreter E1 pinned to color_only = true, decorations = NoDecoration, side_by_side = false): for every "
    "(abstract state x line class) and every handler path that claims a line, the number of newlines written to the stream plus lines "
    "deferred into the buffers is exactly 1 (+1 when a deferred hunk header is released), i.e. one output line per input line; and the "
    "ordering rules ORD-W/ORD-B/EOF/DROP/ONCE hold in that mode (same order). Sink functions (decoration writers) are walked for newline "
    "counting with the indirect call resolved to the function selected for NoDecoration.")

OPT = 'cli::Opt'
FORCED = {'side_by_side': ('bool', False), 'file_decoration_style': ('str', 'none'),
          'commit_decoration_style': ('str', 'none'), 'hunk_header_decoration_style': ('str', 'none')}


def c02a(F, res):
    so = [p for p in F.fn_bodies if p.endswith('::set_options') and F.bodies[p]['mir']['arg_count'] == 4]
    if len(so) != 1:
        res.anchor_missing('options::set::set_options')
        return
    so = so[0]
    blocks = F.blocks(so)
    n_ok = 0
    for fld, want in FORCED.items():
        ws = [w for w in Ru.field_writes(F, so, OPT, fld) if w[1][-1][1] == fld or (len(w[1]) == 1 and w[1][0][1] == fld)]
        forced = []
        for (bb, chain, kind, payload) in ws:
            # value written
            vals = []
            if kind == 'assign':
                rv = payload[2]
                if rv[0] == 'use':
                    vals = F.operand_literals(so, rv[1])
            elif kind == 'call':
                for a in payload['args']:
                    vals += F.operand_literals(so, a)
            if want in [(v[0], v[1]) for v in vals if v[0] in ('bool', 'str')]:
                g = Ru.guarded_by(F, so, bb, lambda roots: any(r[0] == 'param' and r[2] and r[2][-1] == 'color_only' for r in roots))
                if g:
                    forced.append((bb, g))
        if not forced:
            res.violate('C02-a', 'field=%s;missing' % fld,
                        'set_options does not force opt.%s to %r under `if opt.color_only`: with --color-only this option can change the line structure' % (fld, want[1]),
                        where=F.bodies[so]['mir']['span']['at'])
            continue
        ok = True
        for (bb, (sb, tgt)) in forced:
            # every path from the guard's true edge to return passes the forced write
            miss = Ru.must_pass(F, so, tgt, [bb])
            if miss:
                ok = False
                res.violate('C02-a', 'field=%s;skipped' % fld, 'a path from `if opt.color_only` to the return of set_options skips the forced write of opt.%s' % fld,
                            where=F.bodies[so]['mir']['span']['at'])
            later = Ru.reachable_after(F, so, bb)
            lw = [w for w in ws if w[0] in later and w[0] != bb]
            if lw:
                ok = False
                res.violate('C02-a', 'field=%s;overwritten' % fld, 'opt.%s is written again after being forced for --color-only' % fld,
                            where=F.bodies[so]['mir']['span']['at'])
            # the guard is on every path to the return
            if Ru.must_pass(F, so, 0, [sb]):
                ok = False
                res.violate('C02-a', 'field=%s;guard-bypassed' % fld, 'set_options can return without evaluating the color_only override of opt.%s' % fld,
                            where=F.bodies[so]['mir']['span']['at'])
        if ok:
            n_ok += 1
    res.rule('C02-a', len(FORCED), 4, 'options forced under `if opt.color_only` at the end of set_options (guarded edge-sensitively, last write, on all paths)', discharged=n_ok,
             samples=sorted(FORCED))


def run(F, tier, res):
    from .. import extract
    _, h, _ = extract.facts_path()
    c02a(F, res)
    R = E.runs(F, h, ['C'])
    res.assumptions += E.ASSUMPTIONS + [
        'C02-a\'s forced options reach Config unchanged and "none" parses to DecorationStyle::NoDecoration (pinned by unit tests)',
        'an opaque local painter that is handed one line appends that line followed by exactly one newline; the paint loop releases buffered lines one-for-one',
        'blame / grep / git-show renderings are outside the line-for-line contract (color-only is a diff filter)']
    res.not_decided += ['that each output line\'s visible text equals the input line\'s (value-level)']
    C = R['C']
    if C['summary']['unmodelled']:
        res.violate('E1-INCOMPLETE', 'mode=C', 'the abstract interpreter hit an unmodelled construct: %r' % C['summary']['unmodelled'])
    E.add_e1(res, R, {'NL', 'ORD-W', 'ORD-B', 'EOF', 'DROP', 'ONCE', 'DECLINE-CONSUME'}, 'C02')
    res.rule('C02-b.NL', C['summary']['nl_checked'], 1000, 'handler exits that claim a line in color-only mode; newlines written + deferrals == 1 (+1 for a released hunk header)')
    res.rule('C02-b.order', len(C['event_sites'].get('DIRECT_W', [])) + len(C['event_sites'].get('FLUSH_W', [])), 10,
             'direct-write and flush sites reached in color-only mode, each checked for ORD-W in every abstract state')
    E.evidence(res, R)
    return res
