#!/usr/bin/env python3
"""tools/accept_seed.py <worktree-id> <property> [check ...]
Confirm a sub-agent's seeded change myself (builds, demo fails with / passes without, suite passes), store it under
seeded/<id>/, run the named checks against it (default: the property's own check) and record which detect it."""
import json, os, subprocess, sys, shutil
wid, prop = sys.argv[1], sys.argv[2]
checks = sys.argv[3:] or [prop]
wt, out = '/tmp/seed/' + wid, '/tmp/seed/' + wid + '.out'
V = '/verif'
def sh(cmd, cwd=None, ok=(0,)):
    r = subprocess.run(cmd, shell=True, cwd=cwd, stdout=subprocess.PIPE, stderr=subprocess.STDOUT, text=True)
    return r.returncode, r.stdout
ran = []
rc, o = sh('cargo build --offline 2>&1 | tail -1', wt); ran.append('cargo build --offline (modified): ' + o.strip())
rc_mod, o_mod = sh('bash %s/demo.sh %s/target/debug/delta' % (out, wt), out); ran.append('demo.sh on modified build: exit %d' % rc_mod)
rc_base, o_base = sh('bash %s/demo.sh /repo/target/debug/delta' % out, out); ran.append('demo.sh on unmodified build (/repo HEAD): exit %d' % rc_base)
rc, o = sh("cargo test --workspace --no-fail-fast --offline 2>&1 | grep -E '^test result' | head -3", wt); ran.append('cargo test (modified): ' + o.strip())
tests_ok = 'ok.' in o and ' 0 failed' in o
print('\n'.join(ran))
if not (rc_mod == 1 and rc_base == 0 and tests_ok):
    print('NOT ACCEPTED'); sys.exit(1)
dst = os.path.join(V, 'seeded', wid)
shutil.rmtree(dst, ignore_errors=True)
shutil.copytree(out, dst)
_, patch = sh('git -C %s diff' % wt)
open(os.path.join(dst, 'patch.diff'), 'w').write(patch)
# run checks
detected, missed, details = [], [], {}
subprocess.check_call(['git', '-C', os.environ.get('DV_REPO', '/repo'), 'apply', os.path.join(dst, 'patch.diff')])
try:
    for c in checks:
        r = subprocess.run([V + '/check', c], stdout=subprocess.PIPE, stderr=subprocess.STDOUT, text=True)
        lines = [l.strip() for l in r.stdout.splitlines() if l.strip().startswith(c + ' [')]
        if r.returncode == 1 and 'VIOLATION' in r.stdout:
            detected.append(c); details[c] = lines[:3]
        else:
            missed.append(c)
finally:
    subprocess.check_call(['git', '-C', os.environ.get('DV_REPO', '/repo'), 'checkout', '--', '.'])
notes = open(os.path.join(out, 'NOTES.md')).read() if os.path.exists(os.path.join(out, 'NOTES.md')) else ''
meta = {'id': wid, 'breaks_property': prop, 'needs_to_manifest': '(see NOTES.md)', 'what_i_ran': ran,
        'detected_by': detected, 'missed_by': missed, 'reports': details}
json.dump(meta, open(os.path.join(dst, 'meta.json'), 'w'), indent=1)
print('ACCEPTED; detected_by=%s missed_by=%s' % (detected, missed))
for c, l in details.items():
    for x in l: print('   ', x[:200])
