#!/bin/sh
# Build the fact extractor and warm the dependency cache (offline).
set -e
cd "$(dirname "$0")"
export CARGO_NET_OFFLINE=true
(cd driver && cargo build --release --offline)
python3 -m dv.extract
