#!/usr/bin/env python3
"""Apply each behaviour-preserving patch of a directory to /repo in turn, run every quick check, require silence.
usage: benign.py <dir with r*.diff> [label]    (results appended to benign/results.json; patches copied to benign/<label>/)"""
import json, os, shutil, subprocess, sys
V = os.path.dirname(os.path.dirname(os.path.abspath(__file__)))
REPO = os.environ.get('DV_REPO', '/repo')      # a scratch worktree may be used so that /repo stays free for other work
src = os.path.abspath(sys.argv[1])
label = sys.argv[2] if len(sys.argv) > 2 else os.path.basename(src.rstrip('/'))
dst = os.path.join(V, 'benign', label)
os.makedirs(dst, exist_ok=True)
resf = os.path.join(V, 'benign', os.environ.get('BENIGN_RESULTS', 'results.json'))
results = json.load(open(resf)) if os.path.exists(resf) else {}
props = [c['property_id'] for c in json.load(open(os.path.join(V, 'MANIFEST.json')))['checks']]
only = sys.argv[3:] 
for f in sorted(os.listdir(src)):
    if not f.endswith('.diff'):
        continue
    if only and f not in only:
        continue
    p = os.path.join(src, f)
    if subprocess.call(['git', '-C', REPO, 'status', '--porcelain', '--untracked-files=no']) != 0 or subprocess.check_output(['git', '-C', REPO, 'status', '--porcelain', '--untracked-files=no']).strip():
        sys.exit('/repo is not clean')
    r = subprocess.run(['git', '-C', REPO, 'apply', p], capture_output=True, text=True)
    if r.returncode != 0:
        print(f, 'DOES NOT APPLY', r.stderr[:200])
        results['%s/%s' % (label, f)] = {'applies': False}
        continue
    alarms = {}
    try:
        procs = {}
        # E1 properties first (sequential: they share the engine pool), the rest in parallel
        for pid in props:
            out = subprocess.run([os.path.join(V, 'check'), pid, '--tier', 'quick'], capture_output=True, text=True, cwd=V)
            lines = [l.strip() for l in out.stdout.splitlines() if l.strip().startswith(pid + ' [')]
            if out.returncode != 0 or 'VIOLATION' in out.stdout:
                alarms[pid] = lines[:4] or [out.stdout[-300:] + out.stderr[-300:]]
    finally:
        subprocess.check_call(['git', '-C', REPO, 'checkout', '--', '.'])
        subprocess.call(['git', '-C', REPO, 'clean', '-fdq', 'src'])
    shutil.copy(p, os.path.join(dst, f))
    results['%s/%s' % (label, f)] = {'applies': True, 'alarms': alarms}
    print(f, 'SILENT' if not alarms else 'ALARM %s' % json.dumps(alarms, indent=1)[:1500], flush=True)
    json.dump(results, open(resf, 'w'), indent=1)
if os.path.exists(os.path.join(src, 'NOTES.md')):
    shutil.copy(os.path.join(src, 'NOTES.md'), os.path.join(dst, 'NOTES.md'))
