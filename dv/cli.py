"""Entry point:  ./check C01 [--tier quick|thorough] [--replay path]"""
import argparse
import importlib
import json
import os
import sys
import time

from . import extract, facts, report


def main(argv=None):
    ap = argparse.ArgumentParser()
    ap.add_argument('prop')
    ap.add_argument('--tier', default=os.environ.get('VERIF_TIER') or 'quick', choices=['quick', 'thorough'])
    ap.add_argument('--replay', default=None)
    ap.add_argument('--facts', default=None, help='use this fact file instead of extracting from /repo (debugging)')
    args = ap.parse_args(argv)
    t0 = time.time()
    prop = args.prop.upper()
    res = report.Result(prop)
    census = {}
    try:
        try:
            mod = importlib.import_module('dv.props.%s' % prop.lower())
        except ModuleNotFoundError:
            print('no check for %s' % prop)
            return 2
        if args.facts:
            fp, h, dt = args.facts, 'given', 0.0
        else:
            fp, h, dt = extract.facts_path()
        F = facts.Facts(fp)
        census = F.census()
        census['facts_hash'] = h
        census['extract_s'] = round(dt, 1)
        for k in ('bodies', 'blocks', 'calls', 'asserts', 'adts'):
            if not census.get(k):
                res.violate('CENSUS', 'census.%s=0' % k, 'fact extraction is empty (%s = 0): nothing was analysed' % k)
        if args.replay:
            with open(args.replay) as fh:
                rp = json.load(fh)
            print('replaying %s [%s] %s' % (rp.get('property'), rp.get('rule'), rp.get('key')))
            res = mod.run(F, args.tier, res)
            res.violations = [v for v in res.violations if v.rule == rp.get('rule') and v.key == rp.get('key')]
            if not res.violations:
                print('replay: the recorded violation does not occur on the current tree')
        else:
            res = mod.run(F, args.tier, res)
    except extract.ExtractionError as e:
        res.violate('EXTRACT', 'extraction-failed', 'fact extraction failed, property cannot be decided: %s' % str(e)[:1500])
    level_text = getattr(sys.modules.get('dv.props.%s' % prop.lower()), 'EXPLANATION', '') or 'static analysis over MIR facts'
    return report.finish(res, args.tier, t0, census, level_text)


if __name__ == '__main__':
    sys.exit(main())
