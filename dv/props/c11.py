"""C11 — output is streamed: bounded lag behind the input, never revised (structural part)."""
from . import _e1common as E
from .. import rules as Ru
from ..facts import callee_of, callee_full

EXPLANATION = (
    "Four clauses. STREAM (E1, modes N/H): on every exit of the hunk-line handler that claims a line, output_buffer is empty, i.e. "
    "everything rendered so far has been written; together with ORD-W (C01) output is never revised. LAG (MIR rule): in the hunk-line "
    "handler every push onto the subhunk buffers is dominated by a comparison of that buffer's len() with config.line_buffer_size whose "
    "'exceeds' edge reaches the paint-and-clear function before the push. INPUT: the renderer is instantiated in run_app only over "
    "line-streaming readers (StdinLock, BufReader<ChildStdout>) and run_app does not slurp the input. SINK: no BufWriter/LineWriter is "
    "constructed anywhere reachable from main.")

PAINTER = 'paint::Painter'


def run(F, tier, res):
    from .. import extract
    _, h, _ = extract.facts_path()
    modes = ['N', 'H'] if tier == 'quick' else ['N', 'H', 'R']
    R = E.runs(F, h, modes)
    res.assumptions += E.ASSUMPTIONS
    res.not_decided += ['timing; that the OS pipe / pager does not buffer', 'memory growth inside one over-long line']
    E.add_e1(res, R, {'STREAM', 'EOF'}, 'C11')
    N = R['N']
    res.rule('C11.STREAM', N['summary']['once_checked'], 500, 'claiming exits of the hunk-line handler; output_buffer empty on each')
    hlhs = N['summary']['hunk_line_handlers']
    paint_fns = {eval(x)[0] for x in N['event_sites'].get('PAINT_LB', [])} if N['event_sites'].get('PAINT_LB') else set()
    reaches_paint = F.reverse_reaching(paint_fns)
    n = ok = 0
    for hl in hlhs:
        blocks = F.blocks(hl)
        dom = F.dominators(hl)
        pushes = []
        for i, c in F.calls(hl):
            if callee_of(c).endswith('::push') and c['args']:
                for r in F.trace(hl, c['args'][0]):
                    if r[0] == 'param' and r[2] and r[2][-1] in ('minus_lines', 'plus_lines'):
                        pushes.append((i, r[2][-1]))
        paints = [i for i, c in F.calls(hl) if callee_of(c) in reaches_paint]
        guards = {}
        for (sb, op, arms, other) in Ru.switches(F, hl):
            roots = F.trace(hl, op)
            cmpop = [r[1] for r in roots if r[0] == 'binop' and r[1] in ('Gt', 'Ge', 'Lt', 'Le')]
            lens = [r for r in roots if r[0] == 'call' and r[1].endswith('::len')]
            lim = any(r[0] == 'param' and r[2] and r[2][-1] == 'line_buffer_size' for r in roots)
            if not (cmpop and lens and lim):
                continue
            which = set()
            for r in lens:
                for a in r[4]['args'][:1]:
                    for rr in F.trace(hl, a):
                        if rr[0] == 'param' and rr[2] and rr[2][-1] in ('minus_lines', 'plus_lines'):
                            which.add(rr[2][-1])
            # which edge is taken when len is large?
            from .c20 import _find_binop_rvalue
            rv = _find_binop_rvalue(F, hl, op)
            if rv is None:
                continue
            len_left = any(r[0] == 'call' and r[1].endswith('::len') for r in F.trace(hl, rv[2]))
            big = {'Gt': True, 'Ge': True, 'Lt': False, 'Le': False}[rv[1]]
            if not len_left:
                big = not big
            if Ru.negations(F, hl, op) % 2:
                big = not big
            tt, ft = Ru.bool_edges(arms, other)
            exceeds = tt if big else ft
            notexceeds = ft if big else tt
            for w in which:
                guards.setdefault(w, []).append((sb, exceeds, notexceeds))
        from ..facts import reach
        for (pb, fld) in pushes:
            n += 1
            gs = guards.get(fld, [])
            # a bad path reaches the push without passing a paint call and without having taken the "does not exceed" edge of a
            # guard on this buffer
            S2 = {}
            cut = {(sb, ne) for (sb, ex, ne) in gs if ne is not None}
            for b_, ss in F.cfg(hl).items():
                S2[b_] = [x for x in ss if (b_, x) not in cut]
            r = reach(S2, 0, avoid=set(paints))
            good = bool(gs) and pb not in r
            if good:
                ok += 1
            else:
                res.violate('LAG', 'fn=%s;buffer=%s' % (hl, fld),
                            'a push onto %s is not preceded by a len() > line_buffer_size check that paints and clears the buffers: '
                            'the number of held-back lines is unbounded (a huge added/removed file is rendered only at its end)' % fld,
                            where=F.span_of_call(blocks[pb]['t'][1]))
    res.rule('C11.LAG', n, 2, 'pushes onto minus_lines/plus_lines in the hunk-line handler, each guarded by the line_buffer_size check', discharged=ok)
    # INPUT
    ra = [p for p in F.fn_bodies if p == 'run_app' or p.endswith('::run_app')]
    if not ra:
        res.anchor_missing('run_app')
    n_in = ok_in = 0
    for p in ra:
        for i, c in F.calls(p):
            r = callee_of(c)
            if r == 'delta::delta' or (r.endswith('::delta') and 'ByteLines' in ' '.join(F.bodies.get(r, {}).get('mir', {}).get('locals', [])[:3])):
                n_in += 1
                full = callee_full(c)
                if 'StdinLock' in full or 'BufReader<std::process::ChildStdout>' in full:
                    ok_in += 1
                else:
                    res.violate('INPUT', 'fn=%s;inst=%s' % (p, full), 'the renderer is fed from a reader that is not a line-streaming view of stdin / the child\'s stdout', where=F.span_of_call(c))
            if r.endswith(('::read_to_end', '::read_to_string')) or r == 'std::fs::read':
                res.violate('INPUT', 'fn=%s;callee=%s' % (p, r), 'run_app reads a whole stream into memory', where=F.span_of_call(c))
    res.rule('C11.INPUT', n_in, 2, 'instantiations of the renderer in run_app (StdinLock / BufReader<ChildStdout>)', discharged=ok_in)
    # SINK
    mains = [p for p in F.fn_bodies if p == 'main']
    scanned = 0
    for p in sorted(F.reachable_from(mains) if mains else F.fn_bodies):
        for i, c in F.calls(p):
            scanned += 1
            full = callee_full(c)
            if ('BufWriter' in full or 'LineWriter' in full) and callee_of(c).endswith(('::new', '::with_capacity')):
                res.violate('SINK', 'fn=%s;callee=%s' % (p, callee_of(c)), 'a buffering writer is constructed: output may be held back arbitrarily', where=F.span_of_call(c))
    res.rule('C11.SINK', scanned, 1000, 'calls reachable from main scanned for BufWriter/LineWriter construction')
    E.evidence(res, R)
    return res
