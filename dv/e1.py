"""E1 — abstract interpreter for delta's line state machine (DESIGN.md section 4).

Nothing is executed: the interpreter walks the MIR CFG of `StateMachine::consume` and of every function that
(transitively) touches a field of StateMachine / Painter, over a finite abstract domain:

  G = (S, SRC, Lm, Lq, LBp, MB, MBp, OB, HP, HH, per-line counters)

and checks ordering / pairing / exactly-once rules at inferred events. Events are recognised from field
provenance (which Painter/StateMachine field a call receives), never from function names.
"""
import collections
import json
import os
import pickle
import re
import sys
import time

from .facts import callee_of, callee_full, parse_rust_str, parse_rust_char

sys.setrecursionlimit(20000)

SM_ADT = 'delta::StateMachine'
PAINTER_ADT = 'paint::Painter'
STATE_ADT = 'delta::State'
SOURCE_ADT = 'delta::Source'

INTERESTING = {'hh_text', 'output_buffer', 'line', 'raw_line', 'minus_lines', 'plus_lines', 'merge_conflict_lines', 'mode_info',
               'minus_file', 'plus_file', 'hh_payload'}
W_LOC = ('W',)
HANDLED = 'handled_diff_header_header_line_file_pair'
CURRENT = 'current_file_pair'

# ---------------- values ----------------
def TOP(prov=frozenset()):
    return ('top', frozenset(prov))
T0 = TOP()
def BOOL(b): return ('bool', bool(b))
def INT(n): return ('int', n)
def ENUM(adt, vidx, fields): return ('enum', adt, vidx, tuple(fields))
def TUP(items): return ('tuple', tuple(items))
def REF(loc): return ('ref', tuple(loc))
def VREF(v): return ('vref', v)
def LV(loc): return ('lv', tuple(loc))

OPT = 'std::option::Option'
RES = 'std::result::Result'


def prov_of(v, depth=0):
    out = set()
    if depth > 8:
        return out
    k = v[0]
    if k == 'top':
        out |= v[1]
    elif k in ('ref', 'lv'):
        loc = v[1]
        if loc[0] == 'W':
            out.add('WRITER')
        else:
            for f in loc[1:]:
                if f in INTERESTING:
                    out.add(f)
    elif k == 'vref':
        out |= prov_of(v[1], depth + 1)
    elif k == 'tuple':
        for x in v[1]:
            out |= prov_of(x, depth + 1)
    elif k == 'enum':
        for x in v[3]:
            out |= prov_of(x, depth + 1)
    elif k == 'closure':
        for x in v[2]:
            out |= prov_of(x, depth + 1)
    return out


def has_loc(v, name, depth=0):
    if depth > 8:
        return False
    k = v[0]
    if k == 'ref':
        return name in v[1]
    if k == 'vref':
        return has_loc(v[1], name, depth + 1)
    if k == 'tuple':
        return any(has_loc(x, name, depth + 1) for x in v[1])
    if k == 'enum':
        return any(has_loc(x, name, depth + 1) for x in v[3])
    if k == 'closure':
        return any(has_loc(x, name, depth + 1) for x in v[2])
    return False


def has_writer(v, depth=0):
    if depth > 8:
        return False
    k = v[0]
    if k == 'ref':
        return v[1] == W_LOC
    if k == 'vref':
        return has_writer(v[1], depth + 1)
    if k == 'tuple':
        return any(has_writer(x, depth + 1) for x in v[1])
    if k == 'enum':
        return any(has_writer(x, depth + 1) for x in v[3])
    if k == 'closure':
        return any(has_writer(x, depth + 1) for x in v[2])
    return False


_G = collections.namedtuple('G', 'S SRC Lm Lq LBp MB MBp OB HP HH S0 CL NL DEF WL HW OM REL DW RO SY PL FH')


class G(_G):
    """S state variant; SRC source variant; Lm/Lq minus/plus buffer maybe-nonempty; LBp painted since last push;
    MB/MBp merge buffer; OB output buffer maybe-nonempty; HP pending mode header; HH hunk header captured and
    not yet handed to an emitter; per-line: S0 state at line start, CL consume count (0,1,2), NL newlines written
    (0,1,2,3), DEF deferrals (push/capture) this line, WL line/raw_line written after ingest, HW header payload
    written since handoff."""
    __slots__ = ()

    @property
    def LB(self):
        return 1 if (self.Lm or self.Lq) else 0


class Machine:
    def __init__(self, F, color_only=False, merge_conflicts=True, grammar=True, io_errors=False, shd=True,
                 passthrough=False, step_limit=30000000):
        self.F = F
        self.color_only = color_only
        self.merge_conflicts = merge_conflicts
        self.grammar = grammar
        self.io_errors = io_errors
        self.shd = shd
        self.passthrough = passthrough
        self.pt_checked = 0
        self.cur_memo = ()
        self.step_limit = step_limit
        self.BODIES = F.fn_bodies
        self.SV = F.variants(STATE_ADT)
        self.SVN = F.variant_names(STATE_ADT)
        self.SRCV = F.variants(SOURCE_ADT)
        self.SRCN = F.variant_names(SOURCE_ADT)
        self.NSF = {v['idx']: len(v['fields']) for v in F.adts[STATE_ADT]['variants']}
        self.PT_STATES = {'Unknown', 'CommitMeta', 'SubmoduleLog', 'Blame', 'Grep'}
        self.cp_adt = 'utils::process::CallingProcess'
        self.cp_none = F.variants(self.cp_adt).get('None') if self.cp_adt in F.adts else None
        cps = [p for p, b in F.fn_bodies.items() if b['kind'] == 'Fn' and b['mir']['arg_count'] == 0
               and 'MutexGuard' in b['mir']['locals'][0] and 'CallingProcess' in b['mir']['locals'][0]]
        self.cp_fn = cps[0] if len(cps) == 1 else None
        self.HH_FIELD_TYPES = [f[1] for v in F.adts[STATE_ADT]['variants'] if v['name'] == 'HunkHeader' for f in v['fields']]
        self.HUNK_STATES = {self.SV[n] for n in ('HunkHeader', 'HunkZero', 'HunkMinus', 'HunkPlus') if n in self.SV}
        self.DECO = F.variants('style::DecorationStyle') if 'style::DecorationStyle' in F.adts else {}
        self.viol = collections.OrderedDict()
        self.loophead = collections.Counter()
        self.events = collections.Counter()
        self.aborts = collections.OrderedDict()
        self.stats = collections.Counter()
        self.unmodelled = collections.Counter()
        self.line_outcomes = collections.Counter()
        self.handler_exits = collections.Counter()
        self.event_sites = collections.defaultdict(set)
        self.stack = []
        self.cache = {}
        self.LIVE = {}
        self.samples = []
        self.linestart_seen = set()
        self.ls_index = {}
        self.cur_origin = None
        self.ls_parent = {}
        self.once_checked = 0
        self.pt_claimers = set()
        self.quiet = 0
        self.handler_true_states = collections.defaultdict(set)
        self.nl_checked = 0
        self.ingest_fn = None
        self._prepass()

    # ------------------------------------------------------------------ pre-passes
    def _prepass(self):
        F = self.F
        rel_adts = {SM_ADT, PAINTER_ADT}

        def mentions(b):
            def pl_m(pl):
                return any(pr[0] == 'field' and pr[2] in rel_adts for pr in pl['p'])

            def op_m(o):
                pl = o.get('copy') or o.get('move')
                return pl is not None and pl_m(pl)
            for blk in b['mir']['blocks']:
                for st in blk['s']:
                    if st[0] == 'assign':
                        if pl_m(st[1]):
                            return True
                        rv = st[2]
                        for x in rv[1:]:
                            if isinstance(x, dict) and (('l' in x and pl_m(x)) or op_m(x)):
                                return True
                            if isinstance(x, list):
                                for y in x:
                                    if isinstance(y, dict) and op_m(y):
                                        return True
                t = blk['t']
                if t[0] == 'call':
                    for a in t[1]['args']:
                        if op_m(a):
                            return True
                    if pl_m(t[1]['dest']):
                        return True
                if t[0] == 'switch' and op_m(t[1]):
                    return True
            return False

        def writer_sink(p, b):
            # functions that take the output sink as a parameter, or hand out boxed functions that do
            mir = b['mir']
            for i in range(1, mir['arg_count'] + 1):
                if 'dyn std::io::Write' in mir['locals'][i]:
                    return True
            if 'dyn std::io::Write' in mir['locals'][0] and 'FnMut' in mir['locals'][0]:
                return True
            return False
        rel = {p for p, b in self.BODIES.items() if mentions(b)}
        self.CORE = set(rel)
        self.writer_fns = {p for p, b in self.BODIES.items() if writer_sink(p, b)}
        # writer sinks are interpreted only on request (NL counting); they are cheap
        if self.color_only:
            # selectors handing out boxed sink functions (which decoration writer to use): interpreted so that the
            # indirect call resolves to the function chosen for the pinned decoration style
            rel |= {p for p in self.writer_fns if 'FnMut' in self.BODIES[p]['mir']['locals'][0]}
        # selectors: fn(.., &State, ..) -> &T (e.g. the style chosen for a state): interpreted so that the
        # answer is a function of the state variant
        for p, b in self.BODIES.items():
            mir = b['mir']
            if mir['locals'][0].startswith('&') and any(mir['locals'][i].replace("'_ ", '').endswith('delta::State') and mir['locals'][i].startswith('&')
                                                          for i in range(1, mir['arg_count'] + 1)):
                rel.add(p)
        CG = F.callgraph()
        changed = True
        while changed:
            changed = False
            for p in self.BODIES:
                if p not in rel and CG.get(p, set()) & rel:
                    rel.add(p)
                    changed = True
        self.RELEVANT = rel
        # the hunk-line handler(s): handlers (fn(&mut StateMachine) -> io::Result<bool>) that push onto the subhunk buffers
        self.HLH = set()
        for p in self.CORE:
            mir = self.BODIES[p]['mir']
            if not (mir['arg_count'] == 1 and 'StateMachine' in mir['locals'][1] and mir['locals'][0].startswith('std::result::Result<bool')):
                continue
            cands = [p] + [q for q in ((callee_of(c) if callee_of(c) in self.BODIES else (c.get('resolved') or '')) for _, c in F.calls(p))
                           if q in self.BODIES and q != p and 'StateMachine' in ' '.join(self.BODIES[q]['mir']['locals'][1:2])
                           and not self.BODIES[q]['mir']['locals'][0].startswith('std::result::Result<bool')]
            for q in cands:
                for i, c in F.calls(q):
                    if callee_of(c).endswith('::push') and c['args']:
                        for r in F.trace(q, c['args'][0]):
                            if r[0] == 'param' and ('minus_lines' in r[2] or 'plus_lines' in r[2]):
                                self.HLH.add(p)
        # the file-header composer(s): state-machine methods that read both file names and both file events without writing the names
        self.COMPOSERS = set()
        self.composer_depth = 0
        for p in self.BODIES:
            mir = self.BODIES[p]['mir']
            if not (mir['arg_count'] >= 1 and 'StateMachine' in mir['locals'][1]):
                continue
            flds, wr = set(), set()
            for blk in mir['blocks']:
                for st in blk['s']:
                    if st[0] == 'assign':
                        for pl in [x for x in st[2][1:] if isinstance(x, dict) and 'l' in x] + \
                                [x.get('copy') or x.get('move') for x in st[2][1:] if isinstance(x, dict) and ('copy' in x or 'move' in x)]:
                            flds |= {pr[3] for pr in pl['p'] if pr[0] == 'field' and pr[2] == SM_ADT}
                        if st[1]['p']:
                            wr |= {pr[3] for pr in st[1]['p'] if pr[0] == 'field' and pr[2] == SM_ADT}
                t = blk['t']
                if t[0] == 'call':
                    for r in (t[1]['dest'],):
                        wr |= {pr[3] for pr in r['p'] if pr[0] == 'field' and pr[2] == SM_ADT}
            if {'minus_file', 'plus_file', 'minus_file_event', 'plus_file_event'} <= flds and not ({'minus_file', 'plus_file'} & wr):
                # ... and that can write: something it reaches takes the output stream (a predicate over the same fields is not a composer)
                writes = False
                for q in F.reachable_from([p]):
                    qb = self.BODIES.get(q)
                    if qb and any('dyn std::io::Write' in t_ for t_ in qb['mir']['locals'][1:qb['mir']['arg_count'] + 1]):
                        writes = True
                        break
                if writes:
                    self.COMPOSERS.add(p)
        # ... unless the composition is visible more precisely: a call that is handed the two names and the two events (the formatter
        # of the header text). Then that call is the composition point, wherever it sits (in a helper or inline next to the guard)
        NAMES4 = {'minus_file', 'plus_file', 'minus_file_event', 'plus_file_event'}
        self.NAMES4 = NAMES4
        argcomp = set()
        for p in self.BODIES:
            mir = self.BODIES[p]['mir']
            if not (mir['arg_count'] >= 1 and 'StateMachine' in mir['locals'][1]):
                continue
            for i, c in F.calls(p):
                got = set()
                for a in c['args']:
                    for r in F.trace(p, a):
                        if r[0] == 'param' and r[1] == 1 and r[2]:
                            got |= NAMES4 & set(r[2])
                if got == NAMES4:
                    argcomp.add(p)
        self.ARGCOMP = argcomp
        self.COMPOSERS = {p for p in self.COMPOSERS if p not in argcomp and not (set(F.reachable_from([p])) & argcomp)}
        # dispatchers: state-machine methods that are not handlers themselves but offer the line to several handlers (the handler chain
        # moved out of the loop body into a method): handler-level rules apply to the handlers they call
        def _is_handler_sig(q):
            m_ = self.BODIES[q]['mir']
            return m_['arg_count'] == 1 and 'StateMachine' in m_['locals'][1] and m_['locals'][0].startswith('std::result::Result<bool')
        self.DISPATCHERS = set()
        for p, b_ in self.BODIES.items():
            m_ = b_['mir']
            if not (m_['arg_count'] >= 1 and 'StateMachine' in m_['locals'][1]) or b_['kind'] == 'Closure':
                continue
            hs = {callee_of(c) for _, c in F.calls(p) if callee_of(c) in self.BODIES and callee_of(c) != p and _is_handler_sig(callee_of(c))}
            if len(hs) >= 3:
                self.DISPATCHERS.add(p)
        # entry
        cons = [p for p, b in self.BODIES.items()
                if b['kind'] == 'AssocFn' and b['mir']['arg_count'] == 2 and 'StateMachine' in b['mir']['locals'][1]
                and 'ByteLines' in b['mir']['locals'][2]]
        self.consume = cons[0] if len(cons) == 1 else None
        self.DISPATCHERS.discard(self.consume)
        # literal universe for line classes
        self.PATTERN_FNS = set()
        for p, b in self.BODIES.items():
            for blk in b['mir']['blocks']:
                t = blk['t']
                if t[0] == 'call':
                    c = t[1]
                    cal = callee_of(c)
                    if (cal.endswith('::strip_prefix') or cal.endswith('::starts_with')) and len(c['args']) > 1 and 'const' not in c['args'][1]:
                        self.PATTERN_FNS.add(p)
        lits = set()
        for p in self.BODIES:
            for blk in self.BODIES[p]['mir']['blocks']:
                t = blk['t']
                if t[0] != 'call':
                    continue
                c = t[1]
                cal = callee_of(c)
                direct = cal.endswith('::starts_with') or cal.endswith('::strip_prefix')
                indirect = cal in self.PATTERN_FNS
                if not (direct or indirect):
                    continue
                if p not in self.RELEVANT and not self._callers_relevant(p):
                    continue
                if indirect:
                    for st in blk['s']:
                        if st[0] == 'assign' and st[2][0] == 'use' and 'const' in st[2][1]:
                            v = self.const_val(st[2][1]['const'], p)
                            if v[0] == 'str' and 0 < len(v[1]) <= 24:
                                lits.add(v[1])
                for a in (c['args'][1:] if direct else c['args']):
                    if 'const' in a:
                        v = self.const_val(a['const'], p)
                        if v[0] == 'str' and 0 < len(v[1]) <= 24 and '{' not in v[1][1:] and '\n' not in v[1]:
                            lits.add(v[1])
                        elif v[0] == 'char':
                            lits.add(v[1])
        self.LITS = lits
        self.CLASSES = sorted(lits) + [None]

    def _callers_relevant(self, p):
        # a non-relevant helper whose caller is relevant (one level) still contributes literals
        CG = self.F.callgraph()
        for q in self.RELEVANT:
            if p in CG.get(q, ()):
                return True
        return False

    # ------------------------------------------------------------------ reporting
    def gstr(self, g):
        return ("S=%s SRC=%s LB=%d%s MB=%d%s OB=%d HP=%d HH=%d" % (
            self.SVN.get(g.S, g.S), self.SRCN.get(g.SRC, g.SRC), g.LB, 'p' if g.LBp else '', g.MB, 'p' if g.MBp else '',
            g.OB, g.HP, g.HH) + (' handled%scurrent' % {'E': '==', 'E0': '==', 'DN': '!=', 'D': '!=', 'U': '?'}[g.REL]) + (' FH=1' if g.FH else ''))

    def violate(self, rule, fn, what, g, site='', callee='', facet=''):
        """record a rule violation. Stable key (no line numbers): rule, innermost state-machine/painter function,
        callee (short), facet."""
        if self.quiet:
            return
        core = [x for x in self.stack if x in self.CORE]
        if core and fn not in self.CORE:
            i = self.stack.index(core[-1])
            callee = self.stack[i + 1] if i + 1 < len(self.stack) else callee
            fn = core[-1]
        key = (rule, fn, callee_short(callee), facet)
        st = ' <- '.join(x.split('::')[-1] for x in reversed(self.stack[-6:]))
        if key not in self.viol:
            self.viol[key] = {'rule': rule, 'fn': fn, 'callee': callee_short(callee), 'facet': facet, 'what': what,
                              'first_state': self.gstr(g), 'site': site, 'count': 0, 'via': collections.Counter(),
                              'frames': set(), 'classes': set()}
        v = self.viol[key]
        v['count'] += 1
        cls = dict(self.cur_memo).get(('cls', 'line', None), '<eof>' if any(k[0] == 'eof' for k, _ in self.cur_memo) else '?')
        v['via'][st + ' @ ' + self.gstr(g) + ' line-class=%r' % (cls,)] += 1
        v['frames'].update(self.stack)
        v['classes'].add(cls)
        if 'witness' not in v:
            v['witness'] = self.witness(dict(self.cur_memo).get(('from', 'line', None), self.cur_origin), cls)

    def witness(self, idx, last_cls):
        """a sequence of (abstract line-start state, line class) leading to the given line-start state"""
        chain = []
        guard = 0
        while idx is not None and guard < 60:
            guard += 1
            par, cls, gs = self.ls_parent.get(idx, (None, None, '?'))
            chain.append({'state': gs, 'reached_by_line_class': cls})
            idx = par
        chain.reverse()
        chain.append({'then_line_class': last_cls})
        return chain

    # ------------------------------------------------------------------ grammar assumptions (A1..A6)
    A1 = {"old mode ", "new mode ", "deleted file mode ", "new file mode ", "rename from ", "rename to ", "copy from ", "copy to "}

    def class_allowed(self, cls, g):
        if not self.grammar or cls is None:
            return True
        SV = self.SV
        if cls in self.A1 and (g.S != SV['DiffHeader'] or g.SRC != self.SRCV['GitDiff']):
            return False
        if cls in self.A1 and g.SY and not self.color_only and g.REL not in ('E0', 'DN'):
            # A1': extended header lines precede the `---`/`+++` lines of their section (they follow the `diff` line directly)
            return False
        if cls == "-Subproject commit " and not (g.S == SV['HunkHeader'] and g.LB == 0):
            return False
        if cls == "+Subproject commit " and g.S != SV['SubmoduleShort']:
            return False
        if g.S == SV['HunkHeader']:
            # A4: a hunk has at least one body line: the line after a hunk header is not a section starter
            if cls.startswith('@@') or cls.startswith('diff ') or cls in ('Submodule ', 'Binary files ', 'Only in '):
                return False
            if cls.startswith('--- ') and g.SRC != self.SRCV['GitDiff']:
                return False
        if (cls.startswith('@@') or cls in ('Submodule ', 'Only in ')) and g.HP == 1:
            # A8: a section with a pending mode header reaches its first hunk only through `---`/`+++` lines; `Submodule` and
            # `Only in` lines are sections of their own and do not occur inside a section that has mode lines
            return False
        if cls.startswith('@@') and g.S not in self.HUNK_STATES and not (g.PL and g.S == SV['DiffHeader']):
            # A9: the first hunk header of a file section directly follows the `+++` line of that section
            return False
        if cls == "Binary files " and not (g.S == SV['DiffHeader'] or g.SRC == self.SRCV['DiffUnified']):
            return False
        if g.S == SV.get('MergeConflict') and (cls.startswith('diff ') or cls in ('Submodule ', 'Binary files ', 'Only in ')):
            # A6: a conflict region is terminated before the next section starts
            return False
        return True

    def pred_allowed(self, key, val, g):
        if not self.grammar or not val:
            return True
        kind, subj, lit = key
        if kind == 'regex' and subj == 'line' and 'commit_regex' in str(lit):
            # A10: the commit-line regex matches only lines that start with none of the other marker literals
            cls = dict(self.cur_memo).get(('cls', 'line', None))
            if cls is not None and 'commit' not in cls:
                return False
        if kind == 'regex' and g.S == self.SV['HunkHeader'] and g.HH == 1 and subj == 'line':
            # A4 for regex-decided section starters (commit line): the line after a hunk header is a hunk-body line
            return False
        return True

    # ------------------------------------------------------------------ constants
    def const_val(self, c, fnpath):
        ty, rp = c['ty'], c['repr']
        if rp.startswith('const '):
            rp = rp[6:]
        if 'promoted' in c:
            b = self.F.bodies.get(fnpath)
            if not b or 'promoted' not in b or c['promoted'] >= len(b['promoted']):
                return T0
            pb = b['promoted'][c['promoted']]
            env = {}
            for blk in pb['blocks']:
                for st in blk['s']:
                    if st[0] == 'assign' and not st[1]['p']:
                        env[st[1]['l']] = self._simple_rvalue(st[2], env, fnpath)
            return env.get(0, T0)
        if ty == 'bool':
            return BOOL(rp.strip() == 'true')
        if ty.startswith('&') and ty.endswith('str') and rp.startswith('"'):
            try:
                return ('str', parse_rust_str(rp))
            except Exception:
                return ('str', rp[1:-1])
        if ty == 'char':
            return ('char', parse_rust_char(rp))
        if 'fn_path' in c:
            return ('fn', c['fn_path'])
        m = re.match(r'^(-?\d+)_?(usize|isize|u8|u16|u32|u64|u128|i8|i16|i32|i64|i128)$', rp)
        if m:
            return INT(int(m.group(1)))
        if ty in self.F.adts:
            for v in self.F.adts[ty]['variants']:
                if rp.endswith('::' + v['name']) or rp == v['name']:
                    return ENUM(ty, v['idx'], [])
        if 'unevaluated' in c:
            return ('static', c['unevaluated'])
        if 'alloc' in rp:
            return ('static', rp)
        return T0

    def _simple_rvalue(self, rv, env, fnpath):
        k = rv[0]

        def op(o):
            if 'const' in o:
                return self.const_val(o['const'], fnpath)
            pl = o.get('copy') or o.get('move')
            return env.get(pl['l'], T0) if pl and not pl['p'] else T0
        if k == 'agg':
            kind = rv[1]
            ops = [op(o) for o in rv[2]]
            if kind[0] == 'adt':
                return ENUM(kind[1], kind[2], ops)
            if kind[0] == 'tuple':
                return TUP(ops)
            return T0
        if k == 'ref':
            pl = rv[2]
            return VREF(env.get(pl['l'], T0)) if not pl['p'] else T0
        if k == 'use':
            return op(rv[1])
        return T0

    # ------------------------------------------------------------------ SM memory
    def read_loc(self, loc, g):
        if loc == W_LOC:
            return T0
        path = loc[1:]
        if not path:
            return T0
        last = path[-1]
        if path == ('state',):
            if g.S == self.SV['HunkHeader']:
                # the text fields of the captured header are copies of a line that starts with "@@": never empty
                flds = [TOP({'hh_payload', 'hh_text'}) if ty == 'std::string::String' else TOP({'hh_payload'})
                        for ty in self.HH_FIELD_TYPES]
                return ENUM(STATE_ADT, g.S, flds)
            return ENUM(STATE_ADT, g.S, [T0] * self.NSF[g.S])
        if path == ('source',):
            return ENUM(SOURCE_ADT, g.SRC, [])
        if last == 'writer':
            return REF(W_LOC)
        if last == 'config':
            return REF(('SM', 'config'))
        if 'config' in path:
            i = path.index('config')
            cpath = path[i + 1:]
            if cpath == ('color_only',):
                return BOOL(self.color_only)
            if cpath == ('handle_merge_conflicts',):
                return BOOL(self.merge_conflicts)
            if self.color_only:
                # invariant established by option processing (rule C02-a): no decorations, no side-by-side
                if cpath == ('side_by_side',):
                    return BOOL(False)
                if len(cpath) == 2 and cpath[1] == 'decoration_style' and cpath[0] in ('commit_style', 'file_style', 'hunk_header_style') and self.DECO:
                    return ENUM('style::DecorationStyle', self.DECO['NoDecoration'], [])
            if cpath == ('file_style', 'is_raw'):
                return BOOL(not self.shd)
            if cpath == ('file_style', 'decoration_style') and not self.shd and self.DECO:
                return ENUM('style::DecorationStyle', self.DECO['NoDecoration'], [])
            if cpath == ('file_style', 'is_omitted'):
                # pinned: with an omitted file style the header writer returns before any write, so no ordering
                # obligation arises there (and a pending mode header is by design never shown)
                return BOOL(False)
            if cpath and cpath[-1] == 'is_omitted':
                return ('cfg', cpath)
            return T0
        return TOP(f for f in path if f in INTERESTING)

    def write_loc(self, loc, val, g, fn):
        if loc == W_LOC:
            return [g]
        path = loc[1:]
        if path == ('state',):
            if val[0] == 'enum' and val[1] == STATE_ADT:
                news = val[2]
                g2 = g
                if news == self.SV['HunkHeader']:
                    pv = prov_of(val)
                    if 'line' in pv or 'raw_line' in pv:
                        self.events['CAPTURE_HDR'] += 1
                        g2 = g2._replace(CL=min(g2.CL + 1, 2), DEF=min(g2.DEF + 1, 3))
                    g2 = g2._replace(HH=1, HW=0)
                else:
                    # leaving HunkHeader: the captured header must have been (or still be) handed to an emitter before the
                    # handler returns (checked in on_return); HH stays 1 until then
                    if g.HH == 1 and g.S == self.SV['HunkHeader']:
                        g2 = g2._replace(HH=3 if news != self.SV.get('SubmoduleShort') else 0)
                    elif g.HH == 3:
                        pass
                    else:
                        g2 = g2._replace(HH=0)
                return [g2._replace(S=news)]
            self.unmodelled['state:=TOP in ' + fn] += 1
            return [g._replace(S=i) for i in self.SVN]
        if path == ('source',):
            if val[0] == 'enum' and val[1] == SOURCE_ADT:
                return [g._replace(SRC=val[2])]
            return [g._replace(SRC=i) for i in self.SRCN]
        if path == ('mode_info',):
            return [g._replace(HP=1)]
        if path == (HANDLED,):
            # REL in {E0: both None, DN: handled None & current Some (differ), E: equal, U: unknown}
            if val[0] == 'enum' and val[1].endswith('Option') and val[2] == 0:
                # the per-section reset: a new file section starts, no header written for it yet
                return [g._replace(REL='E0' if g.REL == 'E0' else 'DN', FH=0)]
            return [g._replace(REL='U')]
        if path == (CURRENT,):
            if val[0] == 'enum' and val[1].endswith('Option') and val[2] == 1:
                if g.REL == 'E' and self.grammar and g.SRC == self.SRCV.get('GitDiff'):
                    # A11: within one section of git output the names on the ---/+++ lines are the names on its rename/copy lines
                    return [g]
                return [g._replace(REL='DN' if g.REL in ('E0', 'DN') else 'U')]
            return [g._replace(REL='U')]
        if path in (('minus_file',), ('plus_file',)) and not self.color_only and not self.passthrough:
            # the file the following hunks belong to changes: the language must be (re)selected before they are painted
            return [g._replace(SY=0)]
        if len(path) >= 2 and path[-1] == 'syntax' and 'painter' in path:
            self.events['SET_SYNTAX'] += 1
            return [g._replace(SY=1)]
        if len(path) >= 2 and path[-1] == 'highlighter' and 'painter' in path and not self.color_only and not self.passthrough:
            # the highlighter (language + parser state) is replaced: lines still waiting in the subhunk buffers belong to the text
            # before this point and would be highlighted with the new one
            self.events['SET_HIGHLIGHTER'] += 1
            if (g.Lm or g.Lq) and not g.LBp:
                self.violate('HL-SWAP', fn, 'the syntax highlighter is replaced while removed / added lines read earlier are still buffered unpainted: they are '
                             'highlighted with the language (and parser state) selected for what follows them', g, facet='LB')
            return [g]
        if path in (('line',), ('raw_line',)):
            self.events['WRITE_LINE'] += 1
            self.event_sites['WRITE_LINE'].add(fn)
            return [g._replace(WL=1)]
        if path and path[-1] == 'output_buffer':
            return [g._replace(OB=1)]
        return [g]

    # ------------------------------------------------------------------ places
    def eval_place(self, pl, env, g):
        v = env.get(pl['l'], T0)
        for pr in pl['p']:
            k = pr[0]
            if k == 'deref':
                if v[0] == 'ref':
                    v = LV(v[1])
                elif v[0] == 'vref':
                    v = v[1]
                elif v[0] == 'lv':
                    inner = self.read_loc(v[1], g)
                    if inner[0] == 'ref':
                        v = LV(inner[1])
                    else:
                        v = TOP(prov_of(v))
                else:
                    v = TOP(prov_of(v))
            elif k == 'field':
                name, idx = pr[3], pr[1]
                if v[0] == 'lv':
                    v = LV(v[1] + (name,))
                elif v[0] == 'tuple':
                    v = v[1][idx] if idx < len(v[1]) else T0
                elif v[0] == 'enum':
                    v = v[3][idx] if idx < len(v[3]) else TOP(prov_of(v))
                elif v[0] == 'closure':
                    v = v[2][idx] if idx < len(v[2]) else T0
                elif v[0] == 'cfg':
                    v = ('cfg', v[1] + (name,))
                else:
                    v = TOP(prov_of(v))
            elif k == 'downcast':
                pass
            else:
                if v[0] == 'lv':
                    v = LV(v[1] + ('[]',))
                else:
                    v = TOP(prov_of(v))
        return v

    def rvalue_of(self, v, g):
        return self.read_loc(v[1], g) if v[0] == 'lv' else v

    def operand(self, o, env, g, fnpath):
        if 'const' in o:
            return self.const_val(o['const'], fnpath)
        pl = o.get('copy') or o.get('move')
        if pl is None:
            return T0
        return self.rvalue_of(self.eval_place(pl, env, g), g)

    @staticmethod
    def discr_of(v):
        if v[0] == 'enum':
            return v[2]
        if v[0] == 'bool':
            return 1 if v[1] else 0
        if v[0] == 'int':
            return v[1]
        return None

    # ------------------------------------------------------------------ liveness
    def liveness(self, path):
        if path in self.LIVE:
            return self.LIVE[path]
        blocks = self.BODIES[path]['mir']['blocks']
        n = len(blocks)
        use = [set() for _ in range(n)]
        defs = [set() for _ in range(n)]
        succ = [[] for _ in range(n)]

        def place_uses(pl, acc):
            acc.add(pl['l'])
            for pr in pl['p']:
                if pr[0] == 'index':
                    acc.add(pr[1])

        def op_uses(o, acc):
            pl = o.get('copy') or o.get('move')
            if pl is not None:
                place_uses(pl, acc)

        def rv_uses(rv, acc):
            for x in rv[1:]:
                if isinstance(x, dict):
                    if 'l' in x:
                        place_uses(x, acc)
                    else:
                        op_uses(x, acc)
                elif isinstance(x, list):
                    for y in x:
                        if isinstance(y, dict):
                            if 'l' in y:
                                place_uses(y, acc)
                            else:
                                op_uses(y, acc)
        for i, blk in enumerate(blocks):
            u, dset = use[i], defs[i]

            def rd(fn, x):
                tmp = set()
                fn(x, tmp)
                for l in tmp:
                    if l not in dset:
                        u.add(l)
            for st in blk['s']:
                if st[0] == 'assign':
                    rd(rv_uses, st[2])
                    pl = st[1]
                    if pl['p']:
                        rd(place_uses, pl)
                    else:
                        dset.add(pl['l'])
                elif st[0] == 'dead':
                    dset.add(st[1])
            t = blk['t']
            k = t[0]
            if k == 'goto':
                succ[i] = [t[1]]
            elif k == 'switch':
                rd(op_uses, t[1])
                succ[i] = [b for _, b in t[2]] + [t[3]]
            elif k == 'drop':
                rd(place_uses, t[1])
                succ[i] = [t[2]]
            elif k == 'assert':
                rd(op_uses, t[2])
                succ[i] = [t[4]]
            elif k == 'call':
                c = t[1]
                for a in c['args']:
                    rd(op_uses, a)
                if 'func' in c:
                    rd(op_uses, c['func'])
                if c['dest']['p']:
                    rd(place_uses, c['dest'])
                if c['target'] is not None:
                    succ[i] = [c['target']]
            elif k == 'return':
                if 0 not in dset:
                    u.add(0)
        live_in = [set(x) for x in use]
        changed = True
        while changed:
            changed = False
            for i in range(n - 1, -1, -1):
                out = set()
                for sx in succ[i]:
                    out |= live_in[sx]
                t = blocks[i]['t']
                if t[0] == 'call' and not t[1]['dest']['p']:
                    out.discard(t[1]['dest']['l'])
                new = use[i] | (out - defs[i])
                if new != live_in[i]:
                    live_in[i] = new
                    changed = True
        self.LIVE[path] = live_in
        return live_in

    # ------------------------------------------------------------------ interpreter core
    def call_fn(self, path, argvals, g, memo):
        b = self.BODIES.get(path)
        if b is None:
            return None
        if path in self.stack:
            self.unmodelled['recursion ' + path] += 1
            return [(T0, g, memo)]
        # witness bookkeeping travels with the loop frame only: strip it before entering a handler so that summaries are shared
        frm = ()
        if len(self.stack) == 1:
            frm = tuple(kv for kv in memo if kv[0][0] == 'from')
            if frm:
                memo = tuple(kv for kv in memo if kv[0][0] != 'from')
                self.cur_origin = frm[0][1]
        key = (path, tuple(argvals), g, memo, self.quiet > 0, self.composer_depth > 0)
        try:
            hash(key)
        except TypeError:
            key = None
        if key is not None and key in self.cache:
            self.stats['cache_hit'] += 1
            out = self.cache[key]
        else:
            self.stack.append(path)
            self.stats['fn_interp'] += 1
            self.__dict__.setdefault('interpreted', set()).add(path)
            res = self.run_body(path, b['mir'], argvals, g, memo)
            self.stack.pop()
            out = list(dict.fromkeys(res))
            out = self.on_return(path, argvals, g, out)
            if key is not None:
                self.cache[key] = out
        if frm:
            out = [(rv, g2, tuple(m2) + frm) for (rv, g2, m2) in out]
        return out

    def on_return(self, path, argvals, g_in, outs):
        """per-function exit rules (handlers are recognised by signature: fn(&mut StateMachine) -> io::Result<bool>)"""
        b = self.BODIES[path]
        mir = b['mir']
        top = len(self.stack) == 1 or (len(self.stack) >= 1 and all(f in self.DISPATCHERS for f in self.stack[1:]))
        if top and mir['arg_count'] == 2 and mir['locals'][2].replace(' ', '') in ("&[u8]", "&'_[u8]") or \
                (top and mir['arg_count'] == 2 and '[u8]' in mir['locals'][2] and 'StateMachine' in mir['locals'][1]):
            # the ingest function: its own predicates (truncation guards) do not matter to the handlers
            self.ingest_fn = path
            seen = set()
            res = []
            for (rv, g, memo) in outs:
                memo2 = tuple(kv for kv in memo if kv[0][0] in ('cls', 'eof', 'from'))
                r = (rv, g._replace(WL=0), memo2)
                if r not in seen:
                    seen.add(r)
                    res.append(r)
            return res
        is_handler = (mir['arg_count'] == 1 and 'StateMachine' in mir['locals'][1] and mir['locals'][0].startswith('std::result::Result<bool')) and path not in self.DISPATCHERS
        if not is_handler or not top:
            return outs
        outs2 = []
        for (rv, g, memo) in outs:
            if any(kv[0][0] == 'local' for kv in memo):
                # answers of pure std predicates are kept consistent within one handler only
                memo = tuple(kv for kv in memo if kv[0][0] != 'local')
            if g.HH == 3:
                self.violate('DROP-HDR', path, 'the handler leaves the HunkHeader state (for %s) and returns without the captured hunk header '
                             'having been handed to an emitter: the hunk is shown without its header' % self.SVN[g.S], g, facet='to=' + self.SVN[g.S])
                g = g._replace(HH=0)
            outs2.append((rv, g, memo))
        outs = list(dict.fromkeys(outs2))
        for (rv, g, memo) in outs:
            claimed = None
            if rv[0] == 'enum' and rv[1].endswith('Result') and rv[2] == 0 and rv[3] and rv[3][0][0] == 'bool':
                claimed = rv[3][0][1]
            self.handler_exits[(path, claimed)] += 1
            if claimed is False:
                if g.WL and not g_in.WL:
                    self.violate('DECLINE-MUT', path, 'handler returns Ok(false) after writing line/raw_line: later handlers and the '
                                 'pass-through writer see a modified line', g, facet='line-written')
                if (g.CL > g_in.CL):
                    self.violate('DECLINE-CONSUME', path, 'handler returns Ok(false) after having pushed/written the line: it will be handled again', g, facet='consumed')
            elif claimed is True:
                self.handler_true_states[path].add(self.SVN[g.S])
                if self.passthrough:
                    self.pt_checked += 1
                    he_false = (path, False) in self.handler_exits or (path, None) in self.handler_exits
                    if g.DW != 1 or not g.RO or g.OB or g.DEF or g.NL != 1:
                        self.violate('PASS', path, 'a line that matches no marker / recogniser is not passed through as exactly one write of the raw line '
                                     '(direct writes=%d, raw-line-only=%s, newlines=%d, deferred=%d, output_buffer %s)' % (
                                         g.DW, bool(g.RO), g.NL, g.DEF, 'non-empty' if g.OB else 'empty'), g, facet='dw=%d,ro=%d,nl=%d' % (g.DW, g.RO, g.NL))
                    self.pt_claimers.add(path)
                if path in self.HLH:
                    self.once_checked += 1
                    if g.CL != 1:
                        self.violate('ONCE', path, 'the hunk-line handler claims a line but %s' % (
                            'neither buffers nor writes it (line dropped)' if g.CL == 0 else 'buffers/writes it more than once (line duplicated)'), g, facet='count=%d' % g.CL)
                    if g.OB:
                        self.violate('STREAM', path, 'the hunk-line handler returns with rendered text still held in output_buffer '
                                     '(output lags behind the input by more than the open subhunk)', g, facet='OB')
                if path not in self.HLH and g.OB and not self.passthrough and self.SVN[g.S] not in ('Blame', 'Grep', 'GitShowFile', 'MergeConflict'):
                    # rendered text must have been written by the time the next line is read (the renderers of foreign formats write
                    # one line late by design, and a conflict region is buffered as a whole: both are outside the statement about hunks)
                    self.violate('STREAM', path, 'a handler returns, about to read the next input line, with rendered text still held in output_buffer '
                                 '(an already closed run of lines stays unwritten until some later line happens to flush it)', g, facet='OB-boundary')
                if self.color_only and self.SVN[g.S] not in ('Blame', 'Grep', 'GitShowFile'):
                    # C02-b (diff input only; blame/grep/show renderings are outside the line-for-line contract): exactly one output line per input line (own newlines + deferrals), plus the release of a deferred header
                    total = g.NL + g.DEF
                    expected = 1 + (1 if (g.S0 == self.SV['HunkHeader'] and g.S != self.SV['HunkHeader']) else 0)
                    self.nl_checked += 1
                    if total != expected:
                        self.violate('NL', path, 'color-only: the handler claims an input line but emits %s output lines (%d written + %d deferred), expected %d' % (
                            'no' if total == 0 else ('%d' % total if g.NL < 3 else 'several'), g.NL, g.DEF, expected), g, facet='lines=%d' % total)
        return outs

    def run_body(self, path, mir, argvals, g, memo):
        env0 = {}
        n = mir['arg_count']
        for i in range(n):
            env0[i + 1] = argvals[i] if i < len(argvals) else T0
        blocks = mir['blocks']
        results = []
        work = [(0, env0, g, memo)]
        visited = set()
        live = self.liveness(path)
        while work:
            bb, env, g1, memo1 = work.pop()
            lv = live[bb]
            if any(l not in lv for l in env):
                env = {l: v for l, v in env.items() if l in lv}
            k = (bb, tuple(sorted(env.items())), g1, memo1)
            if k in visited:
                continue
            visited.add(k)
            self.stats['steps'] += 1
            if self.stats['steps'] > self.step_limit:
                self.unmodelled['step limit ' + path] += 1
                break
            blk = blocks[bb]
            if blk['cleanup']:
                continue
            states = [(dict(env), g1)]
            for st in blk['s']:
                nstates = []
                for (e, gg) in states:
                    if st[0] == 'dead':
                        e.pop(st[1], None)
                        nstates.append((e, gg))
                    elif st[0] == 'assign':
                        val = self.rvalue(st[2], e, gg, path)
                        pl = st[1]
                        if not pl['p']:
                            e[pl['l']] = val
                            nstates.append((e, gg))
                        else:
                            tgt = self.eval_place(pl, e, gg)
                            if tgt[0] == 'lv':
                                for g2 in self.write_loc(tgt[1], val, gg, path):
                                    nstates.append((dict(e), g2))
                            else:
                                base = e.get(pl['l'])
                                if base is not None and base[0] not in ('ref', 'vref') and pl['p'][0][0] != 'deref':
                                    e[pl['l']] = TOP(prov_of(base) | prov_of(val))
                                elif base is not None and base[0] == 'top' and pl['p'][0][0] == 'deref':
                                    # write through a raw/boxed pointer held in a local (e.g. vec! initialisation)
                                    e[pl['l']] = TOP(prov_of(base) | prov_of(val))
                                nstates.append((e, gg))
                    else:
                        nstates.append((e, gg))
                states = nstates
            for (e, gg) in states:
                self.terminator(path, blk['t'], e, gg, memo1, work, results)
        return results

    def rvalue(self, rv, env, g, path):
        k = rv[0]
        if k == 'use':
            return self.operand(rv[1], env, g, path)
        if k == 'copyderef':
            return self.rvalue_of(self.eval_place(rv[1], env, g), g)
        if k == 'ref' or k == 'rawptr':
            pl = rv[2] if k == 'ref' else rv[1]
            v = self.eval_place(pl, env, g)
            if v[0] == 'lv':
                return REF(v[1])
            return VREF(v)
        if k == 'agg':
            kind = rv[1]
            ops = [self.operand(o, env, g, path) for o in rv[2]]
            if kind[0] == 'adt':
                return ENUM(kind[1], kind[2], ops)
            if kind[0] == 'tuple':
                return TUP(ops)
            if kind[0] == 'closure':
                return ('closure', kind[1], tuple(ops))
            p = set()
            for o in ops:
                p |= prov_of(o)
            return TOP(p)
        if k == 'discr':
            v = self.rvalue_of(self.eval_place(rv[1], env, g), g)
            dv = self.discr_of(v)
            return INT(dv) if dv is not None and v[0] == 'enum' else T0
        if k == 'unop':
            a = self.operand(rv[2], env, g, path)
            if rv[1] == 'Not' and a[0] == 'bool':
                return BOOL(not a[1])
            if rv[1] == 'Not' and a[0] == 'pred':
                return ('pred', a[1], not a[2])
            return T0
        if k == 'binop':
            a = self.operand(rv[2], env, g, path)
            b = self.operand(rv[3], env, g, path)
            op = rv[1]
            if a[0] == 'int' and b[0] == 'int':
                if op == 'Eq':
                    return BOOL(a[1] == b[1])
                if op == 'Ne':
                    return BOOL(a[1] != b[1])
            if a[0] == 'bool' and b[0] == 'bool':
                if op == 'Eq':
                    return BOOL(a[1] == b[1])
                if op == 'Ne':
                    return BOOL(a[1] != b[1])
                if op == 'BitAnd':
                    return BOOL(a[1] and b[1])
                if op == 'BitOr':
                    return BOOL(a[1] or b[1])
            if a[0] == 'lenof' or b[0] == 'lenof':
                return ('lencmp', (a[1] if a[0] == 'lenof' else b[1]), op)
            return T0
        if k == 'cast':
            a = self.operand(rv[2], env, g, path)
            if a[0] in ('ref', 'vref', 'closure', 'fn', 'cfg'):
                return a
            return TOP(prov_of(a))
        return T0

    def terminator(self, path, t, env, g, memo, work, results):
        k = t[0]
        if k == 'goto':
            work.append((t[1], env, g, memo))
        elif k == 'return':
            results.append((env.get(0, T0), g, memo))
        elif k in ('unreachable', 'resume', 'terminate', 'otherterm'):
            pass
        elif k == 'drop':
            work.append((t[2], env, g, memo))
        elif k == 'assert':
            work.append((t[4], env, g, memo))
        elif k == 'switch':
            v = self.operand(t[1], env, g, path)
            if v[0] == 'cfg':
                # an `omit` style flag decides a branch: fork, remembering on the true edge that an omission is in effect
                armed = g.HH == 2 or any(k[0] == 'eof' for k, _ in memo)
                self._switch_known(t, 1, dict(env), g._replace(OM=1) if armed else g, memo, work)
                self._switch_known(t, 0, dict(env), g, memo, work)
                return
            if v[0] == 'lencmp':
                # comparison of a tracked line buffer's length with something: fork, refining emptiness on neither edge
                for val in (0, 1):
                    self._switch_known(t, val, dict(env), g, memo, work)
                return
            dv = self.discr_of(v)
            if dv is not None:
                self._switch_known(t, dv, env, g, memo, work)
            else:
                seen = set()
                for (val, bb) in t[2] + [[None, t[3]]]:
                    if bb in seen:
                        continue
                    seen.add(bb)
                    work.append((bb, dict(env), g, memo))
        elif k == 'call':
            self.do_call(path, t[1], env, g, memo, work)
        else:
            self.unmodelled['term ' + k] += 1

    def _switch_known(self, t, dv, env, g, memo, work):
        tgt = t[3]
        for (val, bb) in t[2]:
            if val == dv:
                tgt = bb
        work.append((tgt, env, g, memo))

    # ------------------------------------------------------------------ calls
    def do_call(self, path, c, env, g, memo, work):
        argv = [self.operand(a, env, g, path) for a in c['args']]
        if 'indirect' in c:
            callee = '<indirect ' + c.get('indirect', '?') + '>'
        else:
            callee = callee_of(c)
        full = callee_full(c)
        tgt = c['target']
        outcomes = self.call_outcomes(path, c, callee, full, argv, g, memo)
        if tgt is None:
            return
        for (rv, g2, memo2) in outcomes:
            env2 = dict(env)
            dest = c['dest']
            if not dest['p']:
                env2[dest['l']] = rv
                work.append((tgt, env2, g2, memo2))
            else:
                d = self.eval_place(dest, env2, g2)
                if d[0] == 'lv':
                    for g3 in self.write_loc(d[1], rv, g2, path):
                        work.append((tgt, dict(env2), g3, memo2))
                else:
                    work.append((tgt, env2, g2, memo2))

    def predicate(self, key, g, memo, mk_true, mk_false):
        m = dict(memo)
        out = []
        if key[0] == 'starts_with' and key[1] == 'line' and ('cls', 'line', None) in m:
            cls = m[('cls', 'line', None)]
            lit = key[2]
            val = cls is not None and isinstance(lit, str) and cls.startswith(lit)
            self.stats['cls_pred'] += 1
            return [((mk_true if val else mk_false), g, memo)]
        if key in m:
            return [((mk_true if m[key] else mk_false), g, memo)]
        if self.passthrough and key[0] in ('regex', 'local', 'starts_with'):
            # pass-through analysis: the line carries no marker, matches no recogniser
            return [(mk_false, g, memo)]
        for val in (True, False):
            if not self.pred_allowed(key, val, g):
                continue
            memo2 = tuple(sorted(list(memo) + [(key, val)], key=repr))
            out.append(((mk_true if val else mk_false), g, memo2))
        self.stats['pred_forks'] += 1
        return out

    def deref_all(self, v, g):
        for _ in range(4):
            if v[0] == 'ref':
                v = self.read_loc(v[1], g)
            elif v[0] == 'vref':
                v = v[1]
            else:
                break
        return v

    def end_of_line(self, g, memo, eof=False):
        """rules evaluated when the loop asks for the next line (i.e. after one line has been fully handled)"""
        m = dict(memo)
        if ('cls', 'line', None) not in m:
            return  # before the first line
        if self.passthrough and not g.DW and self.SVN[g.S0 if self.color_only else g.S] in self.PT_STATES:
            self.violate('PASS', self.consume, 'a line that matches no marker / recogniser produces no output at all', g, facet='dw=0')
        cls = m[('cls', 'line', None)]
        self.line_outcomes[(g.S0 if self.color_only else g.S, cls, g.S, g.CL, g.NL, g.DEF)] += 1

    def call_outcomes(self, path, c, callee, full, argv, g, memo):
        a0 = argv[0] if argv else T0
        self.cur_memo = memo
        # ---- diverging ----
        if c['target'] is None:
            key = (path, callee)
            if key not in self.aborts:
                self.aborts[key] = {'fn': path, 'callee': callee, 'state': self.gstr(g), 'site': self.F.span_of_call(c),
                                    'via': ' <- '.join(x.split('::')[-1] for x in reversed(self.stack[-6:])),
                                    'memo': [(str(k[2])[:40], v) for k, v in memo][:8]}
            return []
        if self.passthrough and callee == self.cp_fn:
            return [(VREF(ENUM(self.cp_adt, self.cp_none, [])), g, memo)]
        # ---- the loop's line source ----
        if 'ByteLines' in callee and callee.endswith('::next'):
            self.stats['lines_next'] += 1
            self.end_of_line(g, memo)
            g = g._replace(S0=(g.S if self.color_only else 0), CL=0, NL=0, DEF=0, WL=0, OM=0, HW=0, DW=0, RO=1, FH=min(g.FH, 1))
            src = None
            if len(self.stack) == 1:
                # the per-line counters have just been reset: a line-start state already explored need not be explored again
                if g in self.linestart_seen:
                    return []
                self.linestart_seen.add(g)
                # witness bookkeeping: which line-start state and line class led here first
                md = dict(memo)
                idx = len(self.ls_index)
                self.ls_index[g] = idx
                self.ls_parent[idx] = (md.get(('from', 'line', None)), md.get(('cls', 'line', None)), self.gstr(g))
                src = (('from', 'line', None), idx)
            extra = (src,) if src else ()
            outs = [(ENUM(OPT, 0, []), g, (('eof', True),) + extra)]
            okres = ENUM(OPT, 1, [ENUM(RES, 0, [T0])])
            for cls in ([None] + [c for c in self.CLASSES if c is not None and c.strip() == ''] if self.passthrough else self.CLASSES):
                if not self.class_allowed(cls, g):
                    continue
                g_line = g._replace(PL=1 if (cls is not None and cls.startswith('+++ ')) else 0)
                if self.passthrough and self.SVN[g.S] not in self.PT_STATES:
                    continue
                self.loophead[g] += 1
                outs.append((okres, g_line, ((('cls', 'line', None), cls),) + extra))
            return outs
        # ---- models of std ----
        if callee.endswith('Try>::branch'):
            if a0[0] == 'enum' and a0[1].endswith('Result'):
                if a0[2] == 0:
                    return [(ENUM('ControlFlow', 0, [a0[3][0] if a0[3] else T0]), g, memo)]
                return [(ENUM('ControlFlow', 1, [T0]), g, memo)]
            if a0[0] == 'enum' and a0[1].endswith('Option'):
                if a0[2] == 1:
                    return [(ENUM('ControlFlow', 0, [a0[3][0] if a0[3] else T0]), g, memo)]
                return [(ENUM('ControlFlow', 1, [T0]), g, memo)]
            p = prov_of(a0)
            if 'std::io::Error' in full and not self.io_errors:
                return [(ENUM('ControlFlow', 0, [TOP(p)]), g, memo)]
            return [(ENUM('ControlFlow', 0, [TOP(p)]), g, memo), (ENUM('ControlFlow', 1, [T0]), g, memo)]
        if 'FromResidual' in callee and callee.endswith('::from_residual'):
            dty = c.get('dest_ty', '')
            if dty.startswith('std::option::Option'):
                return [(ENUM(OPT, 0, []), g, memo)]
            return [(ENUM(RES, 1, [T0]), g, memo)]
        if callee.endswith('PartialEq>::eq') or callee.endswith('PartialEq>::ne') or re.search(r'PartialEq<[^>]*>>::(eq|ne)$', callee) \
                or callee in ('std::cmp::PartialEq::ne', 'std::cmp::PartialEq::eq'):
            neg = callee.endswith('::ne')
            locs = {a[1] for a in argv[:2] if a[0] == 'ref'}
            if locs == {('SM', HANDLED), ('SM', CURRENT)}:
                self.events['CMP_HANDLED_CURRENT'] += 1
                self.event_sites['CMP_HANDLED_CURRENT'].add(path)
                if g.REL in ('E', 'E0'):
                    return [(BOOL(not neg), g, memo)]
                if g.REL in ('DN', 'D'):
                    return [(BOOL(neg), g, memo)]
                # unknown: fork, and remember what the comparison established
                return [(BOOL(not neg), g._replace(REL='E'), memo), (BOOL(neg), g._replace(REL='D'), memo)]
            x = self.deref_all(a0, g)
            y = self.deref_all(argv[1], g) if len(argv) > 1 else T0
            if x[0] == 'enum' and y[0] == 'enum' and x[1] == y[1]:
                if x[2] != y[2]:
                    return [(BOOL(neg), g, memo)]
                nf = len(x[3]) if x[3] else 0
                if (not x[3] and not y[3]) or (x[1] == STATE_ADT and self.NSF.get(x[2], 1) == 0):
                    return [(BOOL(not neg), g, memo)]
            if x[0] == 'bool' and y[0] == 'bool':
                return [(BOOL((x[1] == y[1]) != neg), g, memo)]
            return [(T0, g, memo)]
        if callee.endswith('Clone>::clone') or callee.endswith('::to_owned') or callee.endswith('::clone_from'):
            if callee.endswith('::clone_from'):
                # dst.clone_from(&src): a write into dst
                if a0[0] == 'ref' and a0[1][0] == 'SM':
                    outs = []
                    src = argv[1] if len(argv) > 1 else T0
                    if a0[1] == ('SM', HANDLED) and src[0] == 'ref' and src[1] == ('SM', CURRENT):
                        return [(T0, g._replace(REL='E0' if g.REL == 'E0' else 'E'), memo)]
                    for g2 in self.write_loc(a0[1], self.deref_all(argv[1], g) if len(argv) > 1 else T0, g, path):
                        outs.append((T0, g2, memo))
                    return outs
                return [(T0, g, memo)]
            x = self.deref_all(a0, g)
            if x[0] in ('enum', 'tuple', 'bool', 'int'):
                return [(x, g, memo)]
            return [(TOP(prov_of(a0) | prov_of(x)), g, memo)]
        if any(callee.endswith(sfx) for sfx in ('::deref', '::deref_mut', '::as_str', '::as_ref', '::as_mut', '::borrow',
                                                '::borrow_mut', '::as_slice', '::as_bytes', '::as_mut_str', '::as_mut_slice')):
            if a0[0] == 'ref':
                return [(a0, g, memo)]
            if a0[0] == 'vref' and a0[1][0] == 'ref':
                return [(a0[1], g, memo)]
            if a0[0] == 'vref' and a0[1][0] == 'vref' and a0[1][1][0] == 'enum':
                return [(a0[1], g, memo)]
            if a0[0] == 'vref' and a0[1][0] == 'enum' and callee.endswith(('::deref', '::deref_mut')):
                return [(a0, g, memo)]
            if a0[0] == 'static' or (a0[0] == 'vref' and a0[1][0] == 'static'):
                return [(a0, g, memo)]
            if a0[0] == 'vref' and a0[1][0] in ('enum', 'fn', 'closure') and callee.endswith(('::as_ref', '::as_mut')):
                x = a0[1]
                if x[0] == 'enum' and x[1].endswith('Option'):
                    return [(ENUM(x[1], x[2], [VREF(f) for f in x[3]]), g, memo)]
            return [(TOP(prov_of(a0)), g, memo)]
        if callee.endswith('Box::<T>::new') or callee.endswith('::into') and a0[0] in ('fn', 'closure'):
            return [(a0, g, memo)]
        if callee.endswith('Option::<T>::unwrap') or callee.endswith('Result::<T, E>::unwrap') or callee.endswith('::expect'):
            x = a0
            if x[0] == 'enum' and x[3]:
                return [(x[3][0], g, memo)]
            return [(TOP(prov_of(a0)), g, memo)]
        if callee.endswith('Option::<T>::is_some') or callee.endswith('Option::<T>::is_none'):
            x = self.deref_all(a0, g)
            if x[0] == 'enum' and x[1].endswith('Option'):
                return [(BOOL((x[2] == 1) == callee.endswith('is_some')), g, memo)]
            return [(T0, g, memo)]
        if callee.endswith('::is_empty') and 'hh_text' in prov_of(a0) and not (prov_of(a0) - {'hh_text', 'hh_payload'}):
            return [(BOOL(False), g, memo)]
        # Vec / String state queries on tracked buffers
        if a0[0] == 'ref' and a0[1][0] == 'SM':
            loc = a0[1]
            last = loc[-1]
            if callee.endswith('::is_empty'):
                if last in ('minus_lines', 'plus_lines'):
                    fld = 'Lm' if last == 'minus_lines' else 'Lq'
                    if getattr(g, fld) == 0:
                        return [(BOOL(True), g, memo)]
                    return [(BOOL(True), g._replace(**{fld: 0}), memo), (BOOL(False), g, memo)]
                if last == 'mode_info':
                    return [(BOOL(g.HP == 0), g, memo)]
                if last in ('minus_file', 'plus_file') and self.grammar and g.S in self.HUNK_STATES and g.SRC == self.SRCV['DiffUnified']:
                    return [(BOOL(False), g, memo)]   # A5
                return [(T0, g, memo)]
            if callee.endswith('::len') and last in ('minus_lines', 'plus_lines'):
                return [(('lenof', last), g, memo)]
        # ---- line predicates ----
        subj = None
        pv = prov_of(a0)
        if 'line' in pv:
            subj = 'line'
        elif 'raw_line' in pv:
            subj = 'raw_line'
        if subj and len(argv) >= 2 and callee.endswith('::starts_with'):
            lit = argv[1][1] if argv[1][0] in ('str', 'char') else None
            return self.predicate(('starts_with', subj, lit), g, memo, BOOL(True), BOOL(False))
        if subj and len(argv) >= 2 and callee.endswith('::strip_prefix'):
            lit = argv[1][1] if argv[1][0] in ('str', 'char') else None
            return self.predicate(('starts_with', subj, lit), g, memo, ENUM(OPT, 1, [TOP({subj})]), ENUM(OPT, 0, []))
        if len(argv) >= 2 and (callee.endswith('Regex::is_match') or callee.endswith('Regex::captures')):
            s1 = prov_of(argv[1])
            sj = 'line' if 'line' in s1 else ('raw_line' if 'raw_line' in s1 else None)
            if sj:
                rx = repr(a0)[:80]
                if callee.endswith('is_match'):
                    return self.predicate(('regex', sj, rx), g, memo, BOOL(True), BOOL(False))
                return self.predicate(('regex', sj, rx), g, memo, ENUM(OPT, 1, [TOP({sj})]), ENUM(OPT, 0, []))
        # ---- Option / bool combinators with a closure: same meaning as the match / if they replace ----
        mo = re.search(r'option::Option::<.{0,80}?>::(and_then|map|unwrap_or_else|or_else|unwrap_or|or|map_or|map_or_else|is_some_and|is_none_or|filter|inspect)(::<|$)', callee)
        mb = re.search(r'bool::<impl bool>::(then|then_some)(::<|$)', callee) or re.search(r'(?:^|::)bool::(then|then_some)(::<|$)', callee)

        def call_closure(fv, args):
            f = self.deref_all(fv, g) if fv[0] in ('vref', 'ref') else fv
            if f[0] == 'vref':
                f = f[1]
            if f[0] == 'closure' and f[1] in self.BODIES:
                by_ref = self.BODIES[f[1]]['mir']['locals'][1].startswith('&')
                return self._descend(path, c, f[1], [VREF(f) if by_ref else f] + args, g, memo)
            if f[0] == 'fn' and f[1] in self.BODIES:
                return self._descend(path, c, f[1], args, g, memo)
            return None

        def is_callable(fv):
            f = self.deref_all(fv, g) if fv[0] in ('vref', 'ref') else fv
            if f[0] == 'vref':
                f = f[1]
            return f[0] in ('closure', 'fn') and f[1] in self.BODIES
        if mb and len(argv) >= 2:
            kind = mb.group(1)
            conds = [a0[1]] if a0[0] == 'bool' else [True, False]
            if kind == 'then_some' or is_callable(argv[1]):
                res_ = []
                for cv in conds:
                    if not cv:
                        res_.append((ENUM(OPT, 0, []), g, memo))
                    elif kind == 'then_some':
                        res_.append((ENUM(OPT, 1, [argv[1]]), g, memo))
                    else:
                        outs = call_closure(argv[1], [])
                        if outs is None:
                            res_ = None
                            break
                        res_ += [(ENUM(OPT, 1, [rv]), g2, m2) for (rv, g2, m2) in outs]
                if res_ is not None:
                    return res_
        if mo and len(argv) >= 2 and ((a0[0] == 'enum' and a0[1].endswith('Option')) or
                                      (a0[0] == 'top' and any(is_callable(x) for x in argv[1:]))):
            kind = mo.group(1)
            # an Option whose variant is not known is read both ways (the closure's effects must not be lost)
            cases = [(a0[2] == 1, (a0[3][0] if (a0[2] == 1 and a0[3]) else T0), a0)] if a0[0] == 'enum' else \
                [(True, TOP(prov_of(a0)), ENUM(OPT, 1, [TOP(prov_of(a0))])), (False, T0, ENUM(OPT, 0, []))]
            res_ = []
            for (is_some, payload, a0v) in cases:
                outs = None
                if kind == 'unwrap_or':
                    outs = [((payload if is_some else argv[1]), g, memo)]
                elif kind == 'or':
                    outs = [((a0v if is_some else argv[1]), g, memo)]
                elif kind in ('and_then', 'map'):
                    if not is_some:
                        outs = [(ENUM(OPT, 0, []), g, memo)]
                    else:
                        o2 = call_closure(argv[1], [payload])
                        if o2 is not None:
                            outs = o2 if kind == 'and_then' else [(ENUM(OPT, 1, [rv]), g2, m2) for (rv, g2, m2) in o2]
                elif kind in ('unwrap_or_else', 'or_else'):
                    if is_some:
                        outs = [((payload if kind == 'unwrap_or_else' else a0v), g, memo)]
                    else:
                        outs = call_closure(argv[1], [])
                elif kind == 'map_or' and len(argv) >= 3:
                    outs = call_closure(argv[2], [payload]) if is_some else [(argv[1], g, memo)]
                elif kind == 'map_or_else' and len(argv) >= 3:
                    outs = call_closure(argv[2], [payload]) if is_some else call_closure(argv[1], [])
                elif kind in ('is_some_and', 'is_none_or'):
                    outs = call_closure(argv[1], [payload]) if is_some else [(BOOL(kind == 'is_none_or'), g, memo)]
                elif kind in ('filter', 'inspect'):
                    if not is_some:
                        outs = [(ENUM(OPT, 0, []), g, memo)]
                    else:
                        o2 = call_closure(argv[1], [VREF(payload)])
                        if o2 is not None:
                            outs = []
                            for (rv, g2, m2) in o2:
                                if kind == 'inspect' or rv != BOOL(False):
                                    outs.append((a0v, g2, m2))
                                if kind == 'filter' and rv != BOOL(True):
                                    outs.append((ENUM(OPT, 0, []), g2, m2))
                if outs is None:
                    res_ = None
                    break
                res_ += outs
            if res_ is not None:
                return res_
        # ---- indirect calls through boxed functions: resolve by the value carried ----
        if callee.endswith('FnMut>::call_mut') or callee.endswith('Fn>::call') or callee.endswith('FnOnce>::call_once') or callee.startswith('<indirect') \
                or re.search(r'ops::Fn(Mut|Once)?<', callee):
            f = self.deref_all(a0, g) if a0[0] in ('vref', 'ref') else a0
            if f[0] == 'vref':
                f = f[1]
            if f[0] == 'fn' and f[1] in self.BODIES and len(argv) == 2 and argv[1][0] == 'tuple':
                return self._descend(path, c, f[1], list(argv[1][1]), g, memo)
            if f[0] == 'closure' and f[1] in self.BODIES and len(argv) == 2 and argv[1][0] == 'tuple':
                return self._descend(path, c, f[1], [VREF(f)] + list(argv[1][1]), g, memo)
        # ---- pure (config, state) predicates: pinned per run in the file-header state so that they answer consistently
        # ---- local callee: descend ----
        if callee in self.BODIES:
            b = self.BODIES[callee]
            av = argv
            if b['kind'] == 'Closure' and len(argv) == 2 and argv[1][0] == 'tuple':
                av = [argv[0]] + list(argv[1][1])
            return self._descend(path, c, callee, av, g, memo)
        return self.external(path, c, callee, argv, g, memo)

    def _descend(self, path, c, callee, av, g, memo):
        g2 = self.paint_event(path, c, callee, av, g)
        if g2 is not g:
            return [(TOP(prov_of(TUP(av)) - {'WRITER'}), g2, memo)]
        # hand-off of the captured hunk header to an emitter
        if g.HH in (1, 3) and sum(1 for a in av if 'hh_payload' in prov_of(a)) >= 2 and any(a[0] == 'ref' and a[1][0] == 'SM' for a in av):
            self.events['HDR_HUNK_HANDOFF'] += 1
            if not g.SY:
                self.violate('STALE-SYNTAX', path, 'a hunk is about to be painted although the language has not been (re)selected since the file name last changed: '
                             'it is highlighted with the previous file\'s syntax', g, facet='SY=0')
            g = g._replace(HH=2, HW=0)
            outs = self._descend2(path, c, callee, av, g, memo)
            res = []
            for (rv, g3, memo3) in outs:
                res.append((rv, g3._replace(HH=0, HW=0, OM=0), memo3))
            return res
        arg_composition = len({a[1][-1] for a in av if a[0] == 'ref' and a[1] and a[1][0] == 'SM'} & self.NAMES4) == 4
        if not arg_composition and path in self.ARGCOMP:
            # the names / events may be handed over by value (Copy): decide from the call site's provenance
            ck_ = (path, id(c))
            memo_ = self.__dict__.setdefault('_argcomp_sites', {})
            if ck_ not in memo_:
                got = set()
                for a_ in c['args']:
                    for r_ in self.F.trace(path, a_):
                        if r_[0] == 'param' and r_[1] == 1 and r_[2]:
                            got |= self.NAMES4 & set(r_[2])
                memo_[ck_] = (got == self.NAMES4)
            arg_composition = memo_[ck_]
        if (callee in self.COMPOSERS or arg_composition) and self.composer_depth == 0 and not self.color_only and not self.passthrough and not self.quiet:
            # the composed file header of a section
            self.events['HDR_COMPOSED'] += 1
            if g.REL not in ('DN', 'D'):
                # the composed header is written although `handled != current` has not been established on this path
                self.violate('HDR-UNGUARDED', path, 'the file header is composed and written on a path on which it has not been established that it was not '
                             'written for this file pair already (handled %s current)' % {'E': '==', 'E0': '==', 'U': '?'}.get(g.REL, g.REL), g,
                             self.F.span_of_call(c), callee, facet='REL=' + g.REL)
            if g.FH and g.SRC == self.SRCV.get('GitDiff'):
                # only git output delimits its sections (the `diff ` line resets the bookkeeping); for plain `diff -u` input the
                # guard is a comparison of names, which this analysis does not track
                self.violate('HDR-TWICE', path, 'a second file header is written for one file section (the header is composed again although one has already been '
                             'written since the section started)', g, self.F.span_of_call(c), callee, facet='composed')
            g = g._replace(FH=2 if g.SRC == self.SRCV.get('GitDiff') else 0)   # 2: composed while handling the current line
            self.composer_depth += 1
            try:
                outs = self._descend2(path, c, callee, av, g, memo)
            finally:
                self.composer_depth -= 1
            if arg_composition:
                # the composed text: whatever is handed this value is writing the composed header
                outs = [(TOP(prov_of(rv) | {'composed'}), g3, m3) for (rv, g3, m3) in outs]
            return outs
        if self.composer_depth == 0 and any('composed' in prov_of(a) for a in av):
            self.composer_depth += 1
            try:
                return self._descend2(path, c, callee, av, g, memo)
            finally:
                self.composer_depth -= 1
        return self._descend2(path, c, callee, av, g, memo)

    def _descend2(self, path, c, callee, av, g, memo):
        if self.quiet:
            return self.call_fn(callee, av, g, memo)
        if callee not in self.RELEVANT:
            self.stats['skipped_irrelevant'] += 1
            dty = c.get('dest_ty', '')
            pv = prov_of(TUP(av))
            if (dty == 'bool' or dty.startswith('std::option::Option<')) and pv and pv <= {'line', 'raw_line'} and not has_writer(TUP(av)) \
                    and not any(a[0] == 'ref' and a[1][0] == 'SM' and a[1][-1] not in ('line', 'raw_line') and 'config' not in a[1] for a in av):
                # an opaque local parser/predicate of the current line (e.g. a marker parser): it answers the same way
                # every time it is asked about this line with the same constant arguments
                consts = tuple(a[1] for a in av if a[0] in ('str', 'char', 'int', 'bool'))
                key = ('local', 'line', '%s%r' % (callee_short(callee), consts))
                if dty == 'bool':
                    return self.predicate(key, g, memo, BOOL(True), BOOL(False))
                return self.predicate(key, g, memo, ENUM(OPT, 1, [TOP(pv)]), ENUM(OPT, 0, []))
            outs = self.external(path, c, callee, av, g, memo, local=True)
            if self.color_only and has_writer(TUP(av)) and callee in self.BODIES:
                # newline accounting only: walk the sink function quietly (events and ordering were decided at the boundary)
                res = []
                seen = set()
                for (rv, g2, memo2) in outs:
                    self.quiet += 1
                    try:
                        inner = self.call_fn(callee, av, g2, memo2)
                    finally:
                        self.quiet -= 1
                    for (_, g3, _m) in inner:
                        r = (rv, g2._replace(NL=g3.NL), memo2)
                        if r not in seen:
                            seen.add(r)
                            res.append(r)
                return res or outs
            return outs
        return self.call_fn(callee, av, g, memo)

    def _bump_nl(self, g, n):
        if not (self.color_only or self.passthrough):
            return g
        return g._replace(NL=min(g.NL + n, 3))

    def _consume(self, g, argv_prov):
        if 'line' in argv_prov or 'raw_line' in argv_prov:
            self.events['CONSUME_LINE'] += 1
            return g._replace(CL=min(g.CL + 1, 2))
        return g

    def paint_event(self, path, c, callee, argv, g):
        if self.quiet:
            return g
        deep = TUP(argv)
        pv = prov_of(deep)
        ob = 'output_buffer' in pv and 'WRITER' not in pv
        lb = 'minus_lines' in pv or 'plus_lines' in pv
        mb = 'merge_conflict_lines' in pv
        sm_whole = any(a[0] == 'ref' and a[1] in (('SM',), ('SM', 'painter')) for a in argv)
        if sm_whole:
            return g
        if ob and (lb or mb):
            self.events['PAINT_' + ('LB' if lb else 'MB')] += 1
            self.event_sites['PAINT_' + ('LB' if lb else 'MB')].add((path, callee))
            if lb:
                g = g._replace(LBp=1, OB=1)
            if mb:
                if g.LB:
                    self.violate('ORD-M', path, 'merge-conflict lines are painted while the subhunk buffer still holds earlier lines', g,
                                 self.F.span_of_call(c), callee, facet='LB')
                g = g._replace(MBp=1, OB=1)
            return g
        return g

    def _nl_of_call(self, c, callee, argv):
        """newlines a formatted write emits, from the macro kind and the literal pieces of its template"""
        sp = c.get('tspan') or c.get('span') or {}
        mac = sp.get('macro', '')
        snip = sp.get('snippet', '')
        if not mac:
            sp = c.get('span') or {}
            mac = sp.get('macro', '')
            snip = sp.get('snippet', '')
        n = 0
        if 'writeln' in mac or snip.startswith('writeln!'):
            n = 1
            m = re.search(r'"((?:[^"\\]|\\.)*)"', snip)
            if m:
                n += m.group(1).count('\\n')
        elif 'write' in mac or snip.startswith('write!'):
            m = re.search(r'"((?:[^"\\]|\\.)*)"', snip)
            if m:
                n = m.group(1).count('\\n')
        return n

    def external(self, path, c, callee, argv, g, memo, local=False):
        if self.quiet:
            deep = TUP(argv)
            ret = TOP(prov_of(deep) - {'WRITER'})
            if has_writer(deep) and not local:
                g = self._bump_nl(g, self._nl_of_call(c, callee, argv))
            return [(ret, g, memo)]
        deep = TUP(argv)
        a0 = argv[0] if argv else T0
        site = self.F.span_of_call(c)
        pv_all = prov_of(deep)
        ret = TOP(pv_all - {'WRITER'})
        # receiver-based buffer events
        if a0[0] == 'ref' and a0[1][0] == 'SM':
            last = a0[1][-1]
            loc = a0[1]
            inlb = ('minus_lines' in loc) or ('plus_lines' in loc)
            inmb = 'merge_conflict_lines' in loc
            if inlb or inmb:
                if callee.endswith(('::push', '::extend', '::insert', '::append', '::extend_from_slice')):
                    self.events['PUSH_' + ('LB' if inlb else 'MB')] += 1
                    self.event_sites['PUSH_' + ('LB' if inlb else 'MB')].add(path)
                    g = self._consume(g, prov_of(TUP(argv[1:])))
                    if inlb:
                        if 'minus_lines' in loc and g.Lq:
                            # the paint function renders all buffered removed lines before all buffered added lines: a removed
                            # line pushed while added lines are waiting will be shown before them
                            self.violate('ORD-P', path, 'a removed line is buffered while earlier added lines are still buffered: the subhunk is painted '
                                         'minus-first, so the removed line overtakes the added lines that preceded it in the input', g, site, callee, facet='Lq')
                        g = g._replace(**{('Lm' if 'minus_lines' in loc else 'Lq'): 1, 'LBp': 0, 'DEF': min(g.DEF + 1, 3)})
                    else:
                        g = g._replace(MB=1, MBp=0, DEF=min(g.DEF + 1, 3))
                    return [(ret, g, memo)]
                if callee.endswith(('::clear', '::drain', '::truncate')):
                    self.events['CLEAR_' + ('LB' if inlb else 'MB')] += 1
                    self.event_sites['CLEAR_' + ('LB' if inlb else 'MB')].add(path)
                    if inlb:
                        fld = 'Lm' if 'minus_lines' in loc else 'Lq'
                        if getattr(g, fld) and not g.LBp:
                            self.violate('DROP', path, 'subhunk line buffer cleared without having been painted', g, site, callee, facet='LB')
                        g = g._replace(**{fld: 0})
                        if not g.LB:
                            g = g._replace(LBp=0)
                    else:
                        if g.MB and not g.MBp:
                            self.violate('DROP', path, 'merge-conflict line buffer cleared without having been painted', g, site, callee, facet='MB')
                        g = g._replace(MB=0, MBp=0)
                    return [(ret, g, memo)]
                if callee.endswith('::len'):
                    return [(T0, g, memo)]
            if last == 'output_buffer':
                if callee.endswith('String::clear'):
                    self.events['CLEAR_OB'] += 1
                    return [(ret, g._replace(OB=0), memo)]
                if callee.endswith(('String::pop', '::len', '::is_empty')):
                    if callee.endswith('String::pop'):
                        # trimming the trailing newline that a paint call has just appended
                        g = g._replace(NL=max(g.NL - 1, 0)) if self.color_only else g
                    return [(ret, g, memo)]
            if last == 'mode_info' and callee.endswith(('::truncate', '::clear')):
                if g.HP and self.composer_depth == 0 and g.FH != 2 and not self.color_only and not self.passthrough:
                    # a pending mode-change header is written on its own (not as part of the composed file header)
                    self.events['HDR_PENDING'] += 1
                    if g.FH and g.SRC == self.SRCV.get('GitDiff'):
                        self.violate('HDR-TWICE', path, 'a second file header is written for one file section (the pending mode-change header after a header has already '
                                     'been written for this section)', g, self.F.span_of_call(c), callee, facet='pending')
                    g = g._replace(FH=1 if g.SRC == self.SRCV.get('GitDiff') else 0)
                return [(ret, g._replace(HP=0), memo)]
            if last in ('line', 'raw_line') and len(loc) == 2 and callee.endswith(('::push_str', '::push', '::clear', '::truncate', '::insert', '::insert_str', '::replace_range')):
                return [(ret, g._replace(WL=1), memo)]
        # writer events
        if has_writer(deep):
            rest = prov_of(TUP(argv[1:])) if len(argv) > 1 else set()
            carries_ob = 'output_buffer' in rest
            if 'hh_payload' in pv_all:
                g = g._replace(HW=1)
            if carries_ob:
                self.events['FLUSH_W'] += 1
                self.event_sites['FLUSH_W'].add((path, callee_short(callee)))
                if g.LB and not g.LBp and False:
                    pass
            else:
                self.events['DIRECT_W'] += 1
                self.event_sites['DIRECT_W'].add((path, callee_short(callee)))
                if g.OB:
                    self.violate('ORD-W', path, 'direct write to the output stream while rendered text is still waiting in output_buffer', g, site, callee, facet='OB')
                if g.LB:
                    self.violate('ORD-W', path, 'direct write to the output stream while earlier hunk lines are still buffered (not yet painted)', g, site, callee, facet='LB')
                g = self._consume(g, rest)
                g = self._bump_nl(g, self._nl_of_call(c, callee, argv))
                if self.passthrough:
                    g = g._replace(DW=min(g.DW + 1, 2), RO=1 if (g.RO and 'raw_line' in rest and 'line' not in rest) else 0)
            return [(ret, g, memo)]
        # appends to output buffer by any external call receiving &mut output_buffer
        if has_loc(deep, 'output_buffer') and not callee.endswith(('::new_display', '::new_debug')):
            if local or callee.endswith(('::push_str', '::push', '::write_fmt', '::write_str', '::extend', '::insert_str', '::insert')):
                self.events['APPEND_OB'] += 1
                self.event_sites['APPEND_OB'].add((path, callee_short(callee)))
                if g.LB and not g.LBp:
                    self.violate('ORD-B', path, 'text appended to output_buffer while earlier hunk lines are still buffered (not yet painted)', g, site, callee, facet='LB')
                rest = prov_of(TUP([a for a in argv if not has_loc(a, 'output_buffer')]))
                if 'hh_payload' in rest:
                    g = g._replace(HW=1)
                g = self._consume(g, rest)
                nl = 0
                if callee.endswith('::push') and len(argv) > 1 and argv[1] == ('char', '\n'):
                    nl = 1
                elif callee.endswith('::push_str') and len(argv) > 1 and argv[1][0] == 'str':
                    nl = argv[1][1].count('\n')
                elif callee.endswith('::write_fmt'):
                    nl = self._nl_of_call(c, callee, argv)
                elif local and ('line' in rest or 'raw_line' in rest or 'hh_payload' in rest):
                    nl = 1   # an opaque local painter given one line appends that line and its newline (rule PL in C02)
                g = self._bump_nl(g._replace(OB=1), nl)
                return [(ret, g, memo)]
        if callee.endswith(('::new_display', '::new_debug')) or 'fmt::Arguments' in callee:
            return [(TOP(pv_all), g, memo)]
        return [(ret, g, memo)]

    # ------------------------------------------------------------------ driver
    def g0(self):
        return G(S=self.SV['Unknown'], SRC=self.SRCV['Unknown'], Lm=0, Lq=0, LBp=0, MB=0, MBp=0, OB=0, HP=0, HH=0,
                 S0=self.SV['Unknown'], CL=0, NL=0, DEF=0, WL=0, HW=0, OM=0, REL='E0', DW=0, RO=1, SY=1, PL=0, FH=0)

    def analyse_passthrough(self, seeds):
        """from every given line-start state: feed lines that match no marker and no recogniser"""
        t0 = time.time()
        self.exits = []
        for g in seeds:
            if self.SVN[g.S] not in self.PT_STATES:
                continue
            self.pt_seeds = getattr(self, 'pt_seeds', 0) + 1
            self.linestart_seen = set()
            self.call_fn(self.consume, [REF(('SM',)), T0], g._replace(DW=0, RO=1), (('seed', True),))
        self.foreign_handlers = []
        self.wall = time.time() - t0
        return self

    def analyse(self):
        t0 = time.time()
        if not self.consume:
            raise RuntimeError('ANCHOR-MISSING consume')
        res = self.call_fn(self.consume, [REF(('SM',)), T0], self.g0(), ())
        exits = []
        for (rv, g, memo) in res:
            ok_exit = rv[0] == 'enum' and rv[2] == 0
            exits.append((ok_exit, g))
            if ok_exit:
                if g.LB or g.OB or g.MB or (g.HP and not g.OM):
                    if g.MB and self.grammar and g.S == self.SV.get('MergeConflict') and not (g.LB or g.OB or g.HP):
                        continue   # A6
                    self.violate('EOF', self.consume, 'input ends with text still held back: LB=%d OB=%d MB=%d HP=%d' % (g.LB, g.OB, g.MB, g.HP), g, facet='LB=%d,OB=%d,MB=%d,HP=%d' % (g.LB, g.OB, g.MB, g.HP))
                if g.HH == 1 and not self.grammar:
                    pass
        # handlers of foreign formats (blame / grep / git-show output) are outside the color-only line-for-line contract
        foreign = {p for p, sts in self.handler_true_states.items() if sts & {'Blame', 'Grep', 'GitShowFile'}}
        for k in [k for k, v in self.viol.items() if v['rule'] == 'NL' and v['fn'] in foreign]:
            del self.viol[k]
        self.foreign_handlers = sorted(foreign)
        self.wall = time.time() - t0
        self.exits = exits
        return self

    def summary(self):
        return {
            'mode': {'color_only': self.color_only, 'merge_conflicts': self.merge_conflicts, 'grammar': self.grammar},
            'wall_s': round(self.wall, 1),
            'loop_head_states': len(self.loophead),
            'classes': len(self.CLASSES),
            'line_instances': sum(self.loophead.values()),
            'line_outcomes': len(self.line_outcomes),
            'fn_interps': self.stats['fn_interp'], 'cache_hits': self.stats['cache_hit'], 'steps': self.stats['steps'],
            'pred_forks': self.stats['pred_forks'], 'class_decided_predicates': self.stats['cls_pred'],
            'relevant_fns': len(self.RELEVANT), 'events': dict(self.events),
            'unmodelled': dict(self.unmodelled),
            'exit_states': len(self.exits), 'pt_checked': self.pt_checked, 'pt_claimers': sorted(self.pt_claimers), 'once_checked': self.once_checked, 'nl_checked': self.nl_checked, 'hunk_line_handlers': sorted(self.HLH),
        }


def callee_short(c):
    if not c:
        return ''
    c = re.sub(r'<[^<>]*>', '', c)
    c = re.sub(r'<[^<>]*>', '', c)
    return c.split('::')[-1] if '::' in c else c


# ---------------------------------------------------------------------- cached runs
MODES = {
    'N': dict(color_only=False, merge_conflicts=True, grammar=True),
    'H': dict(color_only=False, merge_conflicts=True, grammar=True, shd=False),
    'C': dict(color_only=True, merge_conflicts=True, grammar=True),
    'R': dict(color_only=False, merge_conflicts=False, grammar=True),
    'X': dict(color_only=False, merge_conflicts=True, grammar=False),
}


def run_mode(F, mode, cache_key=None):
    """run (or load) the analysis in one configuration mode; returns a plain dict"""
    from . import extract
    cpath = None
    ckpath = None
    keyset = None
    if cache_key:
        import hashlib
        here = os.path.dirname(os.path.abspath(__file__))
        src = b''.join(open(os.path.join(here, f), 'rb').read() for f in ('e1.py', 'facts.py'))
        hh = hashlib.sha1(src).hexdigest()[:10]
        cpath = os.path.join(extract.CACHE, 'e1-%s-%s-%s.pkl' % (cache_key, mode, hh))
        # results are shared between trees whose interpreted part is identical (same MIR, spans included, of every function the
        # interpreter can enter; same discovered configuration): a change elsewhere in the crate cannot change the outcome
        try:
            ck, keyset = _content_key(F)
            ckpath = os.path.join(extract.CACHE, 'e1c-%s-%s-%s.pkl' % (ck, mode, hh))
        except Exception:
            ckpath = None
        for pth in (cpath, ckpath):
            if pth and os.path.exists(pth):
                try:
                    with open(pth, 'rb') as fh:
                        got = pickle.load(fh)
                    os.utime(pth, None)
                    return got
                except Exception:
                    pass
    if mode == 'P':
        base = run_mode(F, 'N', cache_key)
        m = Machine(F, passthrough=True, grammar=False)
        seeds = [G(*t) for t in base['loophead_g']]
        m.analyse_passthrough(seeds)
        m.loophead = collections.Counter({g: 1 for g in seeds if m.SVN[g.S] in m.PT_STATES})
    else:
        m = Machine(F, **MODES[mode]).analyse()
    out = {
        'mode': mode,
        'summary': m.summary(),
        'violations': [dict(v, via=v['via'].most_common(6), frames=sorted(v['frames']), classes=sorted(map(str, v['classes'])), witness=v.get('witness', [])) for v in m.viol.values()],
        'aborts': list(m.aborts.values()),
        'loophead': [m.gstr(g) for g in sorted(m.loophead, key=m.gstr)],
        'loophead_g': [tuple(g) for g in sorted(m.loophead, key=m.gstr)],
        'classes': [c for c in m.CLASSES],
        'handler_exits': {('%s|%s' % k): v for k, v in m.handler_exits.items()},
        'event_sites': {k: sorted(map(str, v)) for k, v in m.event_sites.items()},
        'line_outcomes': [((m.SVN[k[0]], k[1], m.SVN[k[2]], k[3], k[4], k[5]), v) for k, v in m.line_outcomes.items()],
        'relevant': sorted(m.RELEVANT),
        'consume': m.consume,
    }
    if cpath:
        # the shared (content-keyed) slot is used only if the run stayed inside the functions the key covers
        target = ckpath if (ckpath and keyset is not None and getattr(m, 'interpreted', set()) <= keyset) else cpath
        tmp = target + '.%d.tmp' % os.getpid()
        with open(tmp, 'wb') as fh:
            pickle.dump(out, fh)
        os.replace(tmp, target)
        try:
            olds = sorted((f for f in os.listdir(extract.CACHE) if f.startswith('e1c-') and f.endswith('.pkl')),
                          key=lambda f: os.path.getmtime(os.path.join(extract.CACHE, f)))
            for f in olds[:-400]:
                os.remove(os.path.join(extract.CACHE, f))
        except OSError:
            pass
    return out


def _content_key(F):
    """(hash, set of function paths) over everything a run of the interpreter can depend on: the MIR of every function it may enter
    (those touching the state machine / painter, the writer sinks, the line-predicate functions, and their closures), the discovered
    configuration, and the type tables"""
    import hashlib
    import json
    if getattr(F, '_e1_content_key', None):
        return F._e1_content_key
    m = Machine(F)
    fns = set(m.RELEVANT) | set(m.writer_fns) | set(m.PATTERN_FNS) | set(m.HLH) | set(m.COMPOSERS) | set(m.DISPATCHERS)
    fns |= {p for p in m.BODIES if '::{closure' in p and p.split('::{closure')[0] in fns}
    fns = {p for p in fns if p in m.BODIES}
    h = hashlib.sha1()
    for p in sorted(fns):
        h.update(p.encode())
        h.update(json.dumps(m.BODIES[p], sort_keys=True, default=str).encode())
    cfg = {'classes': [str(c) for c in m.CLASSES], 'lits': sorted(map(str, m.LITS)) if hasattr(m, 'LITS') else [], 'consume': m.consume,
           'sets': {k: sorted(getattr(m, k)) for k in ('RELEVANT', 'HLH', 'COMPOSERS', 'ARGCOMP', 'DISPATCHERS', 'PATTERN_FNS', 'CORE') if hasattr(m, k)},
           'writer_fns': sorted(m.writer_fns), 'adts': F.adts}
    h.update(json.dumps(cfg, sort_keys=True, default=str).encode())
    F._e1_content_key = (h.hexdigest()[:20], fns)
    return F._e1_content_key


if __name__ == '__main__':
    from . import extract, facts
    fp, h, dt = extract.facts_path()
    F = facts.Facts(fp)
    mode = sys.argv[1] if len(sys.argv) > 1 else 'N'
    r = run_mode(F, mode)
    print(json.dumps(r['summary'], indent=1))
    for v in r['violations']:
        print('[%s] %s -> %s {%s}\n    %s\n    first: %s  %s  x%d' % (v['rule'], v['fn'], v['callee'], v['facet'], v['what'], v['first_state'], v['site'], v['count']))
        for k, n in v['via']:
            print('       via', k, 'x%d' % n)
    if '-a' in sys.argv:
        for a in r['aborts']:
            print('ABORT', a)
    if '-l' in sys.argv:
        for g in r['loophead']:
            print('   ', g)
