"""Finite-domain evaluation of a small integer-only MIR body.

For a function whose branch conditions depend only on one small-integer parameter (a byte), the set of CFG paths it can take
is decided exactly by enumerating the 256 values of that parameter over the MIR: comparisons, integer arithmetic, switches,
overflow asserts and a fixed table of pure u8 predicates are interpreted; anything else makes the evaluation give up
(Undecidable), which callers must treat as "cannot decide" and fail closed.  Fields reached through a `&mut self` parameter
start at 0, so a field's final value is the delta the function applies to it.
"""
import json
import re


class Undecidable(Exception):
    pass


_PURE_U8 = {
    'is_ascii': lambda v: v < 128,
    'is_ascii_control': lambda v: v < 32 or v == 127,
    'is_ascii_whitespace': lambda v: v in (9, 10, 12, 13, 32),
    'is_ascii_graphic': lambda v: 33 <= v <= 126,
    'is_ascii_alphabetic': lambda v: 65 <= v <= 90 or 97 <= v <= 122,
    'is_ascii_digit': lambda v: 48 <= v <= 57,
    'is_ascii_punctuation': lambda v: 33 <= v <= 47 or 58 <= v <= 64 or 91 <= v <= 96 or 123 <= v <= 126,
}

_BITS = {'u8': 8, 'u16': 16, 'u32': 32, 'u64': 64, 'usize': 64, 'i8': 8, 'i16': 16, 'i32': 32, 'i64': 64, 'isize': 64}


def _const(c):
    r = c.get('repr', '')
    if r in ('true', 'false'):
        return r == 'true'
    if r == '()':
        return ()
    m = re.match(r"^(-?\d+)_[iu](8|16|32|64|128|size)$", r)
    if m:
        return int(m.group(1))
    m = re.match(r"^b'(.)'$", r)
    if m:
        return ord(m.group(1))
    raise Undecidable('constant %s' % r)


def evaluate(F, path, params, max_steps=2000):
    """params: {local index: int}.  Returns {'fields': {field-name: final value}, 'ret': value, 'blocks': [visited]}"""
    blocks = F.blocks(path)
    env = {}
    fields = {}

    def key(pl):
        return (pl['l'], json.dumps(pl['p']))

    def rd(pl):
        proj = pl['p']
        if proj and proj[0][0] == 'deref' and len(proj) >= 2 and proj[1][0] == 'field':
            if len(proj) > 2:
                raise Undecidable('nested projection')
            return fields.get((pl['l'], proj[1][3]), 0)
        if not proj:
            if pl['l'] in params and key(pl) not in env:
                return params[pl['l']]
            if key(pl) not in env:
                raise Undecidable('read of unset local _%d' % pl['l'])
            return env[key(pl)]
        if len(proj) == 1 and proj[0][0] == 'field':
            base = rd({'l': pl['l'], 'p': []})
            if isinstance(base, tuple):
                return base[proj[0][1]]
        raise Undecidable('projection %s' % proj)

    def wr(pl, v):
        proj = pl['p']
        if proj and proj[0][0] == 'deref' and len(proj) == 2 and proj[1][0] == 'field':
            fields[(pl['l'], proj[1][3])] = v
            return
        if not proj:
            env[key(pl)] = v
            return
        raise Undecidable('write through %s' % proj)

    def op(o):
        if 'const' in o:
            return _const(o['const'])
        pl = o.get('copy') or o.get('move')
        if pl is None:
            raise Undecidable('operand %s' % o)
        if pl['p'] and pl['p'][0][0] == 'deref' and len(pl['p']) == 1:
            v = rd({'l': pl['l'], 'p': []})
            if isinstance(v, tuple) and len(v) == 2 and v[0] == '&':
                return rd(v[1])
        return rd(pl)

    def width(o):
        if 'const' in o:
            return _BITS.get(o['const'].get('ty'), 64)
        pl = o.get('copy') or o.get('move')
        ty = F.bodies[path]['mir']['locals'][pl['l']] if not pl['p'] else (pl['p'][-1][4] if pl['p'][-1][0] == 'field' and len(pl['p'][-1]) > 4 else 'usize')
        return _BITS.get(ty, 64)

    def rvalue(rv):
        k = rv[0]
        if k == 'use':
            return op(rv[1])
        if k == 'binop':
            a, b = op(rv[2]), op(rv[3])
            o = rv[1]
            cmpf = {'Lt': lambda: a < b, 'Le': lambda: a <= b, 'Gt': lambda: a > b, 'Ge': lambda: a >= b, 'Eq': lambda: a == b, 'Ne': lambda: a != b}
            if o in cmpf:
                return cmpf[o]()
            w = width(rv[2])
            ar = {'Add': lambda: a + b, 'Sub': lambda: a - b, 'Mul': lambda: a * b, 'BitAnd': lambda: a & b, 'BitOr': lambda: a | b, 'BitXor': lambda: a ^ b,
                  'Shr': lambda: a >> b, 'Shl': lambda: a << b}
            base = o.replace('WithOverflow', '').replace('Unchecked', '')
            if base in ar and not isinstance(a, bool):
                r = ar[base]()
                ovf = not (0 <= r < (1 << w))
                if o.endswith('WithOverflow'):
                    return (r % (1 << w), ovf)
                return r % (1 << w)
            if base in ('BitAnd', 'BitOr', 'BitXor') and isinstance(a, bool):
                return {'BitAnd': a and b, 'BitOr': a or b, 'BitXor': a != b}[base]
            raise Undecidable('binop %s' % o)
        if k == 'unop':
            a = op(rv[2])
            if rv[1] == 'Not' and isinstance(a, bool):
                return not a
            raise Undecidable('unop %s' % rv[1])
        if k == 'cast':
            for x in rv[1:]:
                if isinstance(x, dict):
                    return op(x)
        if k == 'ref':
            if rv[1] != 'shared':
                raise Undecidable('mutable reference taken')
            return ('&', rv[2])
        raise Undecidable('rvalue %s' % k)

    bb, steps, visited = 0, 0, []
    while True:
        steps += 1
        if steps > max_steps:
            raise Undecidable('step bound')
        visited.append(bb)
        blk = blocks[bb]
        for st in blk['s']:
            if st[0] == 'assign':
                wr(st[1], rvalue(st[2]))
            elif st[0] == 'dead':
                pass
            else:
                raise Undecidable('statement %s' % st[0])
        t = blk['t']
        if t[0] == 'goto':
            bb = t[1]
        elif t[0] == 'return':
            return {'fields': {f: v for (l, f), v in fields.items()}, 'ret': env.get((0, '[]')), 'blocks': visited}
        elif t[0] == 'switch':
            v = op(t[1])
            v = int(v) if isinstance(v, bool) else v
            bb = next((tg for val, tg in t[2] if val == v), t[3])
        elif t[0] == 'assert':
            c = op(t[2])
            if c != t[3]:
                raise Undecidable('assert fails')
            bb = t[4]
        elif t[0] == 'drop':
            bb = t[2]
        elif t[0] == 'call':
            c = t[1]
            name = (c.get('callee') or '').split('::')[-1]
            full = c.get('callee') or ''
            if name in _PURE_U8 and ('u8' in full or 'core::num' in full) and c['args']:
                a = op(c['args'][0])
                if isinstance(a, tuple) and len(a) == 2 and a[0] == '&':
                    a = rd(a[1])
                wr(c['dest'], _PURE_U8[name](a))
                bb = c['target']
            else:
                raise Undecidable('call to %s' % full)
        else:
            raise Undecidable('terminator %s' % t[0])


def reach_with(F, path, fixed, max_states=20000, observe=None):
    """Blocks reachable when some bool/int locals are fixed (partial evaluation): locals are tracked through copies, moves,
    constants and Not; everything else is unknown, and a switch on an unknown value takes all its edges.
    observe: optional dict filled with {call block: set of known values of the call's first argument}."""
    blocks = F.blocks(path)
    seen = set()
    reached = set()
    work = [(0, tuple(sorted(fixed.items())))]
    while work:
        bb, envt = work.pop()
        if (bb, envt) in seen:
            continue
        seen.add((bb, envt))
        if len(seen) > max_states:
            raise Undecidable('state bound')
        reached.add(bb)
        env = dict(envt)
        blk = blocks[bb]

        def val(o):
            if 'const' in o:
                try:
                    return _const(o['const'])
                except Undecidable:
                    return None
            pl = o.get('copy') or o.get('move')
            if pl is not None and not pl['p']:
                return env.get(pl['l'])
            return None
        for st in blk['s']:
            if st[0] == 'assign' and not st[1]['p']:
                rv = st[2]
                v = None
                if rv[0] == 'use':
                    v = val(rv[1])
                elif rv[0] == 'unop' and rv[1] == 'Not':
                    a = val(rv[2])
                    v = (not a) if isinstance(a, bool) else None
                elif rv[0] == 'binop' and rv[1] in ('Eq', 'Ne', 'BitAnd', 'BitOr'):
                    a, b = val(rv[2]), val(rv[3])
                    if a is not None and b is not None and isinstance(a, bool) == isinstance(b, bool):
                        v = {'Eq': a == b, 'Ne': a != b, 'BitAnd': (a and b) if isinstance(a, bool) else None, 'BitOr': (a or b) if isinstance(a, bool) else None}[rv[1]]
                    elif rv[1] == 'BitAnd' and (a is False or b is False):
                        v = False
                    elif rv[1] == 'BitOr' and (a is True or b is True):
                        v = True
                if v is None or v == ():
                    env.pop(st[1]['l'], None)
                else:
                    env[st[1]['l']] = v
            elif st[0] == 'assign':
                pass
        t = blk['t']
        nxt = []
        if t[0] == 'goto':
            nxt = [t[1]]
        elif t[0] == 'switch':
            v = val(t[1])
            if v is None:
                nxt = [tg for _, tg in t[2]] + [t[3]]
            else:
                iv = int(v) if isinstance(v, bool) else v
                nxt = [next((tg for x, tg in t[2] if x == iv), t[3])]
        elif t[0] == 'call':
            if observe is not None and t[1]['args']:
                # record what is known about the first argument of every call (None = unknown)
                observe.setdefault(bb, set()).add(val(t[1]['args'][0]))
            d = t[1].get('dest')
            if d and not d['p']:
                env.pop(d['l'], None)
            if t[1].get('target') is not None:
                nxt = [t[1]['target']]
        elif t[0] == 'assert':
            nxt = [t[4]]
        elif t[0] == 'drop':
            nxt = [t[2]]
        envt2 = tuple(sorted(env.items()))
        for n in nxt:
            if n is not None:
                work.append((n, envt2))
    return reached
