"""C08 — git's default colouring is ignored; moved-line and raw colours are preserved (structural part)."""
from .. import rules as Ru
from ..facts import callee_of, callee_full, reach

EXPLANATION = (
    "WHO-MAY-READ rule on MIR: in the renderer, every call that receives data with provenance StateMachine.raw_line (the line as received, "
    "escape sequences included) is classified by what it can do with it. Calls that only carry or emit the bytes (clone, deref, slicing "
    "for CR removal, formatting, the writer, tab expansion, storing into the State) are not decisions. Calls that can decide or parse "
    "(prefix/suffix/contains tests, find, split, parse, regexes, comparisons, length, local parsers returning bool/Option) are allowed "
    "only if they are escape-aware by construction - functions of the escape-iterator module, the style-section parsers, the moved-line "
    "detector, the coloured-grep parser (whose regex contains ESC), the diffstat rewriter that keeps the raw colours - or are the "
    "ingest-time CR / length guards. Any other decision on raw_line answers differently for coloured and uncoloured input, which is "
    "exactly a C08 violation. Handlers therefore take their decisions on the stripped `line` (C04's INGEST rule shows it is derived from "
    "raw_line by stripping only).")

NON_DECISION = ('::clone', '::clone_from', '::deref', '::index', '::new_display', '::new_debug', '::to_string', '::to_owned', '::as_str', '::as_ref', '::borrow',
                '::push_str', '::from', '::into', '::expand', '::write_fmt', '::to_vec', '::as_bytes')
# decision-capable callees that are escape-aware or documented: suffix -> reason
ALLOWED = {
    'ansi::measure_text_width': 'escape-aware width',
    'ansi::strip_ansi_codes': 'produces the stripped line',
    'ansi::truncate_str': 'escape-aware truncation',
    'paint::parse_style_sections': 'reads the colours on purpose (blame: honour git\'s colouring)',
    'handlers::grep::get_code_style_sections': 'reads the colours on purpose (raw grep styles)',
    'handlers::grep::parse_raw_grep_line': 'coloured-grep parser: its regex is built around the escape sequences',
    'handlers::hunk::new_line_state': 'moved-line detection (maybe_raw_line / line_has_style_other_than): documented meaningful colours',
    'handlers::diff_stat::relativize_path_in_diff_stat_line': 'rewrites the raw diffstat line keeping its colours',
    'delta::format_raw_line': 'emits the raw line (adds commit hyperlinks on a tty)',
    'features::hyperlinks::format_commit_line_with_osc8_commit_hyperlink': 'emits the raw line with commit hyperlinks',
    'handlers::diff_header::write_generic_diff_header_header_line': 'emits the raw line under a raw style',
}
INGEST_GUARDS = ('::rfind', '::find', 'String::len', '::starts_with')


def _is_carrier(F, fn, params, depth):
    """fn only hands the values of `params` on: every call that receives one of them is a non-decision, an allowed escape-aware
    function, or again a carrier; no branch is taken on them directly"""
    if depth > 3 or fn not in F.fn_bodies:
        return False
    params = set(params)
    for (sb, op, arms, other) in Ru.switches(F, fn):
        if any(rr[0] == 'param' and rr[1] in params for rr in F.trace(fn, op)):
            return False
    for i, c in F.calls(fn):
        idx = [k for k, a in enumerate(c['args']) if any(rr[0] == 'param' and rr[1] in params for rr in F.trace(fn, a))]
        if not idx:
            continue
        r = callee_of(c)
        if r.endswith(NON_DECISION) and not r.endswith('String::len'):
            continue
        if r in ALLOWED:
            continue
        if r in F.fn_bodies and _is_carrier(F, r, [k + 1 for k in idx], depth + 1):
            continue
        return False
    return True


def run(F, tier, res):
    res.assumptions += ['escape-aware functions (ansi module, style-section parsers) treat coloured and uncoloured text alike: value-level, not decided here']
    res.not_decided += ['byte equality of the two runs', 'moved-line colour preservation and map-styles (value-level)',
                        'ingest-time length guard compares the raw length (a coloured line reaches max-line-length earlier): inherent to truncating the raw line']
    delta = [p for p in F.fn_bodies if p == 'delta::delta']
    if not delta:
        res.anchor_missing('delta::delta')
        return res
    render = F.reachable_from(delta)
    ing = [p for p, b in F.fn_bodies.items() if b['mir']['arg_count'] == 2 and 'StateMachine' in b['mir']['locals'][1] and '[u8]' in b['mir']['locals'][2]]
    ingest_fns = set()
    for p in ing:
        ingest_fns |= {q for q in F.reachable_from([p]) if 'StateMachine' in ' '.join(F.bodies[q]['mir']['locals'][1:2])}
    n = ok = 0
    kinds = {}
    for p in sorted(render):
        mir = F.bodies[p]['mir']
        if not any('StateMachine' in mir['locals'][i] for i in range(1, mir['arg_count'] + 1)):
            continue
        for i, c in F.calls(p):
            hit = False
            for a in c['args']:
                if any(r[0] == 'param' and r[2] and r[2][-1] == 'raw_line' for r in F.trace(p, a)):
                    hit = True
            if not hit:
                continue
            r = callee_of(c)
            n += 1
            if r.endswith(NON_DECISION) and not r.endswith('String::len'):
                ok += 1
                kinds.setdefault('carry/emit', set()).add(r.split('::')[-1])
                continue
            if any(r == k or r.endswith('::' + k.split('::')[-1]) and k.split('::')[-1] in r for k in ALLOWED if r == k):
                ok += 1
                kinds.setdefault('escape-aware/documented', set()).add(r)
                continue
            if p in ingest_fns and r.endswith(INGEST_GUARDS):
                # the CR search and the length guard; a prefix test on raw text is NOT among them unless it is on stripped text
                lits = [v for a in c['args'][1:] for v in F.operand_literals(p, a)]
                if r.endswith('::starts_with') and any(v[0] == 'str' for v in lits):
                    # a textual marker tested on the raw line: answers differently for coloured input
                    res.violate('RAW-DECISION', 'fn=%s;callee=%s;lit=%s' % (p, r.split('::')[-1], [v[1] for v in lits][:1]),
                                'a marker is tested on the raw (possibly coloured) line during ingestion: coloured and uncoloured input are treated differently',
                                where=F.span_of_call(c))
                    continue
                ok += 1
                kinds.setdefault('ingest guard', set()).add(r.split('::')[-1])
                continue
            # a local helper that merely carries the raw text on to non-deciding / escape-aware callees (extract-function refactorings)
            tainted_idx = [k for k, a in enumerate(c['args']) if any(rr[0] == 'param' and rr[2] and rr[2][-1] == 'raw_line' for rr in F.trace(p, a))]
            if r in F.fn_bodies and _is_carrier(F, r, [k + 1 for k in tainted_idx], 0):
                ok += 1
                kinds.setdefault('carrier helper', set()).add(r.split('::')[-1])
                continue
            res.violate('RAW-DECISION', 'fn=%s;callee=%s' % (p, r), 'a decision / parse is taken on raw_line (escape sequences included) by `%s`: the answer differs between a diff that git has coloured and the same diff uncoloured' % r,
                        where=F.span_of_call(c))
    res.rule('C08.RAW-DECISION', n, 30, 'calls in the renderer that receive raw_line-derived data, each classified (%s)' % {k: sorted(v) for k, v in kinds.items()}, discharged=ok,
             samples=['%s: %s' % (k, sorted(v)) for k, v in kinds.items()])
    # predicates in handlers use `line`: count for evidence
    m = 0
    for p in sorted(render):
        mir = F.bodies[p]['mir']
        if not any('StateMachine' in mir['locals'][i] for i in range(1, mir['arg_count'] + 1)):
            continue
        for i, c in F.calls(p):
            if callee_of(c).endswith(('::starts_with', '::strip_prefix', 'Regex::is_match', 'Regex::captures')) and any(
                    r[0] == 'param' and r[2] and r[2][-1] == 'line' for a in c['args'][:2] for r in F.trace(p, a)):
                m += 1
    res.rule('C08.LINE-PREDICATES', m, 15, 'marker / regex predicates in state-machine methods whose subject is the stripped `line`')
    # ---------- MEASURE: inside the escape-aware module a possibly-escaped string is never measured directly: display widths are taken
    # of text items of the (text, is_escape) iterator or of stripped strings only ("stripped before ... measuring")
    nm_ = okm_ = 0
    for q in sorted(F.fn_bodies):
        if not q.startswith('ansi::') or '{closure' in q or q.startswith('ansi::iterator') or q.startswith('ansi::console_tests') or '::tests::' in q:
            continue
        mirq = F.bodies[q]['mir']
        str_params = {i for i in range(1, mirq['arg_count'] + 1) if mirq['locals'][i].replace(' ', '') in ('&str', "&'astr")}
        if not str_params:
            continue
        for i, c in F.calls(q):
            cal = callee_of(c)
            if not (cal.endswith('UnicodeWidthStr>::width') or cal.endswith('UnicodeWidthStr>::width_cjk') or cal.endswith('::width') and 'UnicodeWidth' in callee_full(c)):
                continue
            nm_ += 1
            direct = any(r[0] == 'param' and r[1] in str_params and not r[2] for r in F.trace(q, c['args'][0]))
            if direct:
                res.violate('MEASURE', 'fn=%s' % q, 'the display width of a string that may contain escape sequences is taken directly (its escape bytes are counted as text): '
                            'coloured input is measured differently from the same text uncoloured', where=F.span_of_call(c))
            else:
                okm_ += 1
    res.rule('C08.MEASURE', nm_, 1, 'width() calls in the escape-aware module: none on a raw &str parameter', discharged=okm_)
    # ---------- RAW-STYLE: a hunk line whose style is `raw` always keeps its raw form (escape sequences or not)
    nr = okr = 0
    mrl = [q for q in F.fn_bodies if q.endswith('::maybe_raw_line')]
    if not mrl:
        res.anchor_missing('maybe_raw_line')
    for q in mrl:
        raw_params = set()
        for (pp, i, c) in Ru.call_sites(F, lambda r, cc: r == q):
            for k, a in enumerate(c['args']):
                if any(r[0] in ('param', 'local') and r[2] and r[2][-1] == 'is_raw' for r in F.trace(pp, a)):
                    raw_params.add(k + 1)
        nr += 1
        if not raw_params:
            res.violate('RAW-STYLE', 'fn=%s;no-raw-argument' % q, 'no call passes the state style\'s `is_raw` to the raw-line decision', where=F.bodies[q]['mir']['span']['at'])
            continue
        from .. import fdeval
        found = True
        none_blocks = [i for i, b in enumerate(F.blocks(q)) if not b['cleanup'] and any(
            st[0] == 'assign' and st[1]['l'] == 0 and not st[1]['p'] and st[2][0] == 'agg' and st[2][1][0] == 'adt' and st[2][1][1].endswith('Option') and st[2][1][2] == 0
            for st in b['s'])]
        obs = {}
        try:
            r = fdeval.reach_with(F, q, {k: True for k in raw_params}, observe=obs)
        except fdeval.Undecidable:
            r = set(range(len(F.blocks(q))))
        # `flag.then(|| ..)` / `flag.then_some(..)`: None comes out of the library call when the flag is false
        thens = [i for i, c in F.calls(q) if callee_of(c).endswith(('bool::then', 'bool::then_some')) or 'bool>::then' in callee_of(c)]
        then_bad = [i for i in thens if i in r and obs.get(i, {None}) != {True}]
        if thens and not none_blocks:
            none_blocks = thens if then_bad else [-1]
            if not then_bad:
                r = r - {-1}
        if found and none_blocks and not any(nb in r for nb in none_blocks):
            okr += 1
        else:
            res.violate('RAW-STYLE', 'fn=%s' % q, 'the raw-line decision can answer None although the line\'s style is `raw` (some path to None does not test it): '
                        'such a line is then painted with delta\'s computed styles instead of keeping its input colouring', where=F.bodies[q]['mir']['span']['at'])
    res.rule('C08.RAW-STYLE', nr, 1, 'raw-line decision: partial evaluation with is_raw = true; the None result is unreachable', discharged=okr)
    # ---------- CR-FIRST: the carriage return that git leaves between the text and a trailing colour reset is removed before the line is
    # measured for truncation (the uncoloured form of the same line has lost its CR in the line splitter: measuring first makes the
    # coloured line one column wider than the plain one)
    ing = [p for p, b in F.fn_bodies.items() if b['mir']['arg_count'] == 2 and 'StateMachine' in b['mir']['locals'][1] and '[u8]' in b['mir']['locals'][2]]
    ncr = okcr = 0
    if not ing:
        res.anchor_missing('ingest function (fn(&mut StateMachine, &[u8]))')

    def _site_kinds(fn, depth=0):
        """{block: kinds} for the calls of fn that search for the CR / cut the line to max_line_length (directly or in a local helper)"""
        out = {}
        if fn not in F.fn_bodies or depth > 2:
            return out
        for i, c in F.calls(fn):
            r = callee_of(c)
            kinds = set()
            if r.endswith(('::rfind', '::find')) and any(v == ('char', '\r') or v == ('str', '\r') for a in c['args'] for v in F.operand_literals(fn, a)):
                kinds.add('cr')
            if r.endswith('::truncate_str') or (r.endswith('::truncate') and any(x[0] == 'param' and x[2] and x[2][-1] == 'raw_line' for x in F.trace(fn, c['args'][0]))):
                kinds.add('cut')
            q = r if r in F.fn_bodies else (c.get('resolved') or '')
            if q in F.fn_bodies and q != fn and not q.startswith('ansi::'):
                for ks in _site_kinds(q, depth + 1).values():
                    kinds |= ks
            for a in c['args']:
                for x in F.trace(fn, a):
                    if x[0] == 'agg' and x[1][0] == 'closure':
                        for ks in _site_kinds(x[1][1], depth + 1).values():
                            kinds |= ks
            if kinds:
                out[i] = kinds
        return out
    for fn in sorted(set(ing) | {q for p in ing for q in F.reachable_from([p]) if 'StateMachine' in ' '.join(F.bodies[q]['mir']['locals'][1:2])}):
        S = F.cfg(fn)
        sk = _site_kinds(fn)
        cuts = [i for i, ks in sk.items() if 'cut' in ks]
        crs = [i for i, ks in sk.items() if 'cr' in ks]
        for t in cuts:
            after = reach(S, S.get(t, []))
            for s_ in crs:
                if s_ == t:
                    continue
                ncr += 1
                if s_ in after:
                    res.violate('CR-FIRST', 'fn=%s' % fn, 'the line is cut to max-line-length before the carriage return left by git between the text and a trailing colour '
                                'reset is removed: the coloured form of a CRLF line is measured one column wider than the uncoloured form', where=F.span_of_call(F.blocks(fn)[t]['t'][1]))
                else:
                    okcr += 1
    res.rule('C08.CR-FIRST', ncr, 1, 'pairs (truncation to max_line_length, CR search) in the ingest functions: the CR search is never after the cut', discharged=okcr)
    from ._ansi import accounting_rule
    accounting_rule(F, res, 'C08')
    res.distinct.update(r['rule'] for r in res.rules)
    return res
