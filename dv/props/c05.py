"""C05 — displayed line numbers are the true old/new file line numbers (structural part)."""
from .. import rules as Ru
from .. import e1
from ..facts import callee_of, callee_full, reach

EXPLANATION = (
    "Finite-table rules. TABLE: the increment/number table of the function mapping (&mut LineNumbersData, &State, &Config, bool) to the "
    "displayed numbers is extracted from MIR per State variant (which counters receive `+= increment`, which of the two numbers are Some and "
    "from which counter snapshot) and compared with the specification in the property statement: removed -> old counter, added -> new "
    "counter, unchanged -> both, wrapped rows -> none and no increment, anything else -> no gutter. INIT: the per-hunk initialiser is called "
    "on every non-error path of the hunk-header emitter when config.line_numbers (E1/C14 show the emitter runs before the first body line of "
    "every hunk), and it seeds the old counter from the first coordinate pair's start and the new counter from the last pair's start. "
    "PANEL: evaluating the line painter over the finite domain of the panel argument shows increment = false exactly for the Left panel.")

STATE = 'delta::State'
SPEC = {
    'HunkMinus': (frozenset(['Minus']), ('left', None)),
    'HunkZero': (frozenset(['Minus', 'Plus']), ('left', 'right')),
    'HunkPlus': (frozenset(['Plus']), (None, 'right')),
    'HunkMinusWrapped': (frozenset(), (None, None)),
    'HunkZeroWrapped': (frozenset(), (None, None)),
    'HunkPlusWrapped': (frozenset(), (None, None)),
}


def table(F, p):
    blocks = F.blocks(p)
    S = F.cfg(p)
    mir = F.bodies[p]['mir']
    # the switch on the state discriminant
    sw = None
    for (sb, op, arms, other) in Ru.switches(F, p):
        pl = op.get('copy') or op.get('move')
        for (dbb, kind, payload) in (F.local_defs(p).get(pl['l'], []) if pl and not pl['p'] else []):
            if kind == 'assign' and payload[0] == 'discr' and len(payload) >= 4 and payload[2] == STATE:
                sw = (sb, arms, other, {int(v): n for v, n in payload[3]})
    if not sw:
        return None
    sb, arms, other, names = sw
    # snapshots: locals read from line_number[Minus] / [Plus] before the switch
    snap = {}
    for i, c in F.calls(p):
        if callee_of(c).endswith('Index<minusplus::MinusPlusIndex>>::index') and any(r[0] == 'param' and r[1] == 1 and 'line_number' in r[2] for r in F.trace(p, c['args'][0])):
            side = [v[2] for v in F.operand_literals(p, c['args'][1]) if v[0] == 'enum']
            for r in F.trace(p, c['args'][1]):
                if r[0] == 'agg' and r[1][0] == 'adt':
                    side = [r[1][3]]
            # the local that copies (*dest)
            dl = c['dest']['l']
            for b in blocks:
                for st in b['s']:
                    if st[0] == 'assign' and st[2][0] == 'use':
                        q = st[2][1].get('copy') or st[2][1].get('move')
                        if q and q['l'] == dl and not st[1]['p']:
                            snap[st[1]['l']] = 'left' if side and side[0] == 'Minus' else 'right'
    reaches = {}
    targets = {v: b for v, b in arms}
    for v, b in arms:
        reaches[v] = reach(S, b)
    other_reach = reach(S, other)
    common = set.intersection(*reaches.values()) if reaches else set()
    out = {}
    for v, b in arms:
        region = reaches[v] - common
        incs = set()
        numbers = None
        for bb in sorted(region):
            t = blocks[bb]['t']
            if t[0] == 'call' and callee_of(t[1]).endswith('IndexMut<minusplus::MinusPlusIndex>>::index_mut'):
                side = None
                for r in F.trace(p, t[1]['args'][1]):
                    if r[0] == 'agg' and r[1][0] == 'adt':
                        side = r[1][3]
                # followed by += increment (param 4)
                tgt = t[1]['target']
                for st in blocks[tgt]['s'] if tgt is not None else []:
                    if st[0] == 'assign' and st[2][0] == 'binop' and st[2][1].startswith('Add'):
                        if any(r[0] == 'param' and r[1] == 4 for o in (st[2][2], st[2][3]) for r in F.trace(p, o)):
                            incs.add(side)
            if t[0] == 'call' and callee_of(t[1]) in F.fn_bodies:
                # a helper method that advances a counter: `fn advance(&mut self, side, increment) { self.line_number[side] += increment as usize }`
                for (sd, incp) in _inc_summary(F, callee_of(t[1])):
                    args = t[1]['args']
                    if incp - 1 >= len(args) or not any(r[0] == 'param' and r[1] == 4 for r in F.trace(p, args[incp - 1])):
                        continue
                    if sd[0] == 'lit':
                        incs.add(sd[1])
                    elif sd[1] - 1 < len(args):
                        incs.add(_side_of(F, p, args[sd[1] - 1]))
            for st in blocks[bb]['s']:
                if st[0] == 'assign' and st[2][0] == 'agg' and st[2][1][0] == 'tuple' and len(st[2][2]) == 2 and numbers is None:
                    # a pair of Options?
                    pair = []
                    for o in st[2][2]:
                        kind_ = None
                        for r in F.trace(p, o):
                            if r[0] == 'agg' and r[1][0] == 'adt' and r[1][1].endswith('Option'):
                                kind_ = r[1][3]
                        if kind_ is None:
                            pair = None
                            break
                        if kind_ == 'None':
                            pair.append(None)
                        else:
                            # which snapshot
                            src = None
                            pl = o.get('move') or o.get('copy')
                            for (dbb, k2, payload) in F.local_defs(p).get(pl['l'], []):
                                if k2 == 'assign' and payload[0] == 'agg':
                                    for oo in payload[2]:
                                        q = oo.get('move') or oo.get('copy')
                                        cur = q['l'] if q else None
                                        for _ in range(4):
                                            if cur in snap:
                                                src = snap[cur]
                                                break
                                            ds = F.local_defs(p).get(cur, [])
                                            nxt = None
                                            for (d3, k3, pay3) in ds:
                                                if k3 == 'assign' and pay3[0] == 'use':
                                                    qq = pay3[1].get('move') or pay3[1].get('copy')
                                                    nxt = qq['l'] if qq else None
                                            cur = nxt
                            pair.append(src or '?')
                    if pair is not None:
                        numbers = tuple(pair)
        out[names.get(v, v)] = (frozenset(incs), numbers)
    # the otherwise arm must return None (no gutter)
    none_ret = any(st[0] == 'assign' and not st[1]['p'] and st[1]['l'] == 0 and st[2][0] == 'agg' and st[2][1][0] == 'adt' and st[2][1][3] == 'None'
                   for bb in (other_reach - common) | {other} for st in blocks[bb]['s'])
    return out, none_ret, names


def _side_of(F, p, op):
    side = [v[2] for v in F.operand_literals(p, op) if v[0] == 'enum']
    for r in F.trace(p, op):
        if r[0] == 'agg' and r[1][0] == 'adt':
            side = [r[1][3]]
    return side[0] if side else None


def _inc_summary(F, q):
    """[(side, increment parameter)] for a local function that does `<param1>.line_number[side] += <param m>`;
    side is ('lit', variant) or ('param', k)"""
    out = []
    blocks = F.blocks(q)
    for i, c in F.calls(q):
        if not callee_of(c).endswith('IndexMut<minusplus::MinusPlusIndex>>::index_mut'):
            continue
        if not any(r[0] == 'param' and r[1] == 1 and 'line_number' in r[2] for r in F.trace(q, c['args'][0])):
            continue
        lit = _side_of(F, q, c['args'][1])
        sp = [r[1] for r in F.trace(q, c['args'][1]) if r[0] == 'param' and not r[2]]
        sd = ('lit', lit) if lit else (('param', sp[0]) if sp else None)
        tgt = c['target']
        if sd is None or tgt is None:
            continue
        for st in blocks[tgt]['s']:
            if st[0] == 'assign' and st[2][0] == 'binop' and st[2][1].startswith('Add'):
                for o in (st[2][2], st[2][3]):
                    for r in F.trace(q, o):
                        if r[0] == 'param' and r[1] >= 2 and not r[2]:
                            out.append((sd, r[1]))
    return out


def _not_last_sources(F, q, op, slice_local):
    """places of the coordinate slice (parameter `slice_local`) that flow into operand `op` and are positively NOT `last pair . 0`:
    an element counted from the front, a constant index, first(), or a pair's second component (the length)"""
    bad = set()
    seen = set()
    work = []
    pl = op.get('move') or op.get('copy')
    if pl:
        work.append(pl['l'])
    defs = F.local_defs(q)

    def classify(proj):
        fld = [pr[3] for pr in proj if pr[0] == 'field']
        for pr in proj:
            if pr[0] == 'cindex':
                if not pr[2]:
                    bad.add('element [%d] (counted from the front)' % pr[1])
                elif pr[1] != 1:
                    bad.add('element [len() - %d]' % pr[1])
            if pr[0] == 'index':
                o = {'copy': {'l': pr[1], 'p': []}}
                rs = F.trace(q, o)
                lits = [v[1] for v in F.operand_literals(q, o) if v[0] == 'int']
                has_len = any((r[0] == 'unop' and r[1] == 'PtrMetadata') or (r[0] == 'call' and r[1].endswith('::len')) for r in rs)
                sub = any(r[0] == 'binop' and r[1].startswith('Sub') for r in rs)
                if not has_len and lits and not any(r[0] in ('param', 'call') for r in rs):
                    bad.add('element [%s]' % lits[0])
                elif has_len and sub and lits and max(lits) != 1:
                    bad.add('element [len() - %d]' % max(lits))
        if fld and fld[-1] == '1' and any(pr[0] in ('cindex', 'index') for pr in proj):
            bad.add('the length (second component) of a pair')
    while work:
        l = work.pop()
        if l in seen:
            continue
        seen.add(l)
        for (bb, kind, payload) in defs.get(l, []):
            if kind == 'call':
                cal = callee_of(payload)
                if cal.endswith('::first') and any(r[0] in ('param', 'local') and r[1] == slice_local for a in payload['args'][:1] for r in F.trace(q, a)):
                    bad.add('first()')
                for a in payload['args'][:1]:
                    p2 = a.get('move') or a.get('copy')
                    if p2:
                        work.append(p2['l'])
                continue
            rv = payload
            places = []
            if rv[0] in ('use', 'cast'):
                o = rv[1] if rv[0] == 'use' else rv[2]
                p2 = o.get('move') or o.get('copy') if isinstance(o, dict) else None
                if p2:
                    places.append(p2)
            elif rv[0] in ('ref', 'rawptr', 'copyderef'):
                places.append(rv[2] if rv[0] == 'ref' else rv[1])
            elif rv[0] == 'agg':
                for o in rv[2]:
                    p2 = o.get('move') or o.get('copy')
                    if p2:
                        places.append(p2)
            for p2 in places:
                if p2['l'] == slice_local:
                    classify(p2['p'])
                else:
                    if any(pr[0] in ('cindex', 'index') for pr in p2['p']):
                        # an element of something derived from the slice (a reborrow / sub-slice)
                        if any(r[0] in ('param', 'local') and r[1] == slice_local for r in F.trace(q, {'copy': {'l': p2['l'], 'p': []}})):
                            classify(p2['p'])
                    work.append(p2['l'])
    return bad


class _Probe(e1.Machine):
    def __init__(self, F, target):
        super().__init__(F)
        self.target = target
        self.seen_args = set()

    def call_outcomes(self, path, c, callee, full, argv, g, memo):
        if callee == self.target:
            self.seen_args.add(tuple(argv))
            return [(e1.T0, g, memo)]
        return super().call_outcomes(path, c, callee, full, argv, g, memo)


def run(F, tier, res):
    res.assumptions += ['the hunk-header emitter runs before the first body line of every hunk (decided by C14/E1)']
    res.not_decided += ['the side-by-side left-counter compensation arithmetic', 'widths / number formatting', 'the position and path text printed in hunk headers',
                        'that hunk-header coordinates are parsed correctly (value-level)']
    lns = [p for p, b in F.fn_bodies.items() if b['mir']['arg_count'] == 4 and 'LineNumbersData' in b['mir']['locals'][1] and
           b['mir']['locals'][2].endswith('delta::State') and b['mir']['locals'][4] == 'bool' and b['mir']['locals'][0].startswith('std::option::Option<')]
    if len(lns) != 1:
        res.anchor_missing('linenumbers_and_styles (fn(&mut LineNumbersData, &State, &Config, bool) -> Option<..>)')
        return res
    ln = lns[0]
    t = table(F, ln)
    if not t:
        res.anchor_missing('switch on State discriminant in ' + ln)
        return res
    tab, none_ret, names = t
    n = ok = 0
    for var in sorted(names.values()):
        n += 1
        if var in SPEC:
            got = tab.get(var)
            if got == SPEC[var]:
                ok += 1
            else:
                res.violate('TABLE', 'state=%s' % var, 'for a %s line the numbering table is %s, the property requires %s '
                            '(counters incremented, (old number shown from, new number shown from))' % (var, got, SPEC[var]), where=F.bodies[ln]['mir']['span']['at'])
        else:
            if var in tab:
                res.violate('TABLE', 'state=%s' % var, 'state %s gets a line-number gutter entry %s; only hunk lines are numbered' % (var, tab[var]), where=F.bodies[ln]['mir']['span']['at'])
            elif not none_ret:
                res.violate('TABLE', 'state=%s;otherwise' % var, 'the fall-through arm does not return None', where=F.bodies[ln]['mir']['span']['at'])
            else:
                ok += 1
    res.rule('C05.TABLE', n, 16, 'State variants: increments and displayed numbers per variant vs the specification table', discharged=ok,
             samples=['%s -> %s' % (k, (sorted(v[0]), v[1])) for k, v in sorted(tab.items())])
    # ---------- INIT
    inits = [p for p in F.fn_bodies if p.endswith('::initialize_hunk')]
    if not inits:
        res.anchor_missing('initialize_hunk')
        return res
    ih = inits[0]
    ni = oki = 0
    callers = Ru.call_sites(F, lambda r, c: r == ih)
    for (p, i, c) in callers:
        ni += 1
        g = Ru.guarded_by(F, p, i, lambda roots: any(r[0] == 'param' and r[2] and r[2][-1] == 'line_numbers' for r in roots))
        good = True
        if g:
            sb, tgt = g
            errexits = [bb for bb, cc in F.calls(p) if 'from_residual' in callee_of(cc)]
            # every path from the guard's true edge to return passes the call
            miss = Ru.must_pass(F, p, tgt, {i} | set(errexits))
            if miss:
                good = False
            # the guard itself is on every non-error path from entry
            if Ru.must_pass(F, p, 0, {sb} | set(errexits)):
                good = False
        else:
            # unconditional is fine too if on every path
            if Ru.must_pass(F, p, 0, {i} | {bb for bb, cc in F.calls(p) if 'from_residual' in callee_of(cc)}):
                good = False
        if good:
            oki += 1
        else:
            res.violate('INIT', 'fn=%s' % p, 'the line-number counters are not (re)initialised from the hunk header on every path of the hunk-header emitter when line numbers are shown: '
                        'numbers continue from the previous hunk', where=F.span_of_call(c))
    if not callers:
        res.violate('INIT', 'no-caller', 'nobody initialises the line-number counters per hunk', where=F.bodies[ih]['mir']['span']['at'])
    # provenance of the two counters inside the initialiser
    ni += 1
    blocks = F.blocks(ih)
    mp = [(i, c) for i, c in F.calls(ih) if callee_of(c).endswith('MinusPlus::<T>::new')]
    good = False
    for (i, c) in mp:
        descr = []
        for a in c['args'][:2]:
            pl = a.get('move') or a.get('copy')
            d = None
            for (dbb, kind, payload) in F.local_defs(ih).get(pl['l'], []) if pl else []:
                if kind == 'assign' and payload[0] == 'use':
                    q = payload[1].get('copy') or payload[1].get('move')
                    if q and q['l'] == 2:
                        idx = [pr for pr in q['p'] if pr[0] == 'index']
                        fld = [pr for pr in q['p'] if pr[0] == 'field']
                        if idx and fld and fld[-1][3] == '0':
                            il = idx[0][1]
                            ivals = F.operand_literals(ih, {'copy': {'l': il, 'p': []}})
                            roots = F.trace(ih, {'copy': {'l': il, 'p': []}})
                            if ('int', 0) in ivals and not any(r[0] == 'binop' for r in roots):
                                d = 'first'
                            elif any(r[0] == 'binop' and r[1].startswith('Sub') for r in roots) and any(r[0] == 'call' and r[1].endswith('::len') for r in roots) and ('int', 1) in ivals:
                                d = 'last'
            descr.append(d)
        if descr == ['first', 'last']:
            # and the result is stored in self.line_number
            good = True
    if good:
        oki += 1
    else:
        res.violate('INIT', 'fn=%s;provenance' % ih, 'the old/new counters are not seeded from the start of the first / last coordinate pair of the hunk header', where=F.bodies[ih]['mir']['span']['at'])
    # the coordinates are parsed from the text between the @@ markers only (group 1 of the hunk-header regex), not from the whole
    # line (whose trailing code fragment may contain `-1`, `+7`, ...)
    from .. import rxsites
    for q in sorted(F.fn_bodies):
        for i, c in F.calls(q):
            if callee_of(c).endswith('Regex::captures_iter') and any(
                    rr[0] == 'call' and 'COORDINATE' in rr[1].upper() for rr in F.trace(q, c['args'][0])):
                ni += 1
                roots = F.trace(q, c['args'][1], deep=True)
                from_group = any(rr[0] == 'call' and ('Captures' in rr[1] and rr[1].endswith(('::index', '::get'))) for rr in roots)
                whole = any(rr[0] == 'param' and not rr[2] and 'Captures' not in F.local_ty(q, rr[1]) for rr in F.trace(q, c['args'][1]))
                if from_group and not whole:
                    oki += 1
                else:
                    res.violate('INIT', 'fn=%s;coordinates-source' % q, 'hunk coordinates are parsed from more than the text between the @@ markers: a `-N`/`+N` in the code fragment '
                                'is taken for a start position', where=F.span_of_call(c))
    # the start coordinate that is stored is the parsed number itself: between the numeric parse of the capture and the (start, length)
    # pair that goes into the parsed header there is no arithmetic (the number printed and counted from is the one git wrote)
    for q in sorted(F.fn_bodies):
        if not (q.endswith('::parse_hunk_header') or '::parse_hunk_header::{closure' in q):
            continue
        for blk in F.blocks(q):
            if blk['cleanup']:
                continue
            for st in blk['s']:
                if st[0] == 'assign' and st[2][0] == 'agg' and st[2][1][0] == 'tuple' and len(st[2][2]) == 2:
                    tys = []
                    for o in st[2][2]:
                        pl = o.get('move') or o.get('copy')
                        tys.append(F.bodies[q]['mir']['locals'][pl['l']] if pl and not pl['p'] else (o.get('const', {}).get('ty')))
                    if tys != ['usize', 'usize']:
                        continue
                    ni += 1
                    roots = F.trace(q, st[2][2][0], deep=True)
                    parsed = any(r[0] == 'call' and (r[1].endswith('::parse') or r[1].endswith('from_str')) for r in roots)
                    arith = [r for r in roots if r[0] == 'binop' and r[1].replace('WithOverflow', '') in ('Add', 'Sub', 'Mul', 'Div', 'Rem')]
                    if parsed and not arith:
                        oki += 1
                    elif parsed:
                        res.violate('INIT', 'fn=%s;start-arithmetic' % q, 'the start coordinate stored for a hunk is computed from the parsed number (%s) instead of being the number git wrote: '
                                    'the position printed in the hunk header and the line numbers counted from it are shifted' % arith[0][1], where=F.bodies[q]['mir']['span']['at'])
                    else:
                        oki += 1
    res.rule('C05.INIT', ni, 3, 'call sites of the per-hunk initialiser (guarded by config.line_numbers, on all paths) + provenance of its two counters', discharged=oki)
    # ---------- PANEL
    pls = [p for p in F.fn_bodies if any(callee_of(c) == ln for _, c in F.calls(p))]
    PAN = 'minusplus::MinusPlusIndex'   # PanelSide is an alias: Left = Minus, Right = Plus
    npn = okpn = 0
    for pl_ in pls:
        mir = F.bodies[pl_]['mir']
        pidx = [i for i in range(1, mir['arg_count'] + 1) if mir['locals'][i].replace(' ', '') == 'std::option::Option<minusplus::MinusPlusIndex>']
        if not pidx or PAN not in F.adts:
            continue
        pv = F.variants(PAN)
        for label, val, want in (('None', e1.ENUM(e1.OPT, 0, []), True), ('Some(Left)', e1.ENUM(e1.OPT, 1, [e1.ENUM(PAN, pv['Minus'], [])]), False),
                                 ('Some(Right)', e1.ENUM(e1.OPT, 1, [e1.ENUM(PAN, pv['Plus'], [])]), True)):
            npn += 1
            m = _Probe(F, ln)
            args = [e1.T0] * mir['arg_count']
            args[pidx[0] - 1] = val
            m.stack.append('<probe>')
            m.RELEVANT = set(m.RELEVANT) | {pl_}
            m.call_fn(pl_, args, m.g0(), ())
            incs = {a[3] for a in m.seen_args if len(a) >= 4}
            if incs == {('bool', want)}:
                okpn += 1
            else:
                res.violate('PANEL', 'fn=%s;panel=%s' % (pl_, label), 'for panel %s the line painter passes increment=%s to the numbering function, expected %s '
                            '(a paired line would be counted twice, or not at all)' % (label, sorted(map(str, incs)), want), where=F.bodies[pl_]['mir']['span']['at'])
    res.rule('C05.PANEL', npn, 3, 'panel argument values x callers of the numbering function: increment flag', discharged=okpn)
    # ---------- HDR-POS: the position printed in a hunk header is the start (.0) of the LAST coordinate pair (the new file)
    nh = okh = 0
    for q in sorted(F.fn_bodies):
        mir = F.bodies[q]['mir']
        sl = [i for i in range(1, mir['arg_count'] + 1) if mir['locals'][i].replace(' ', '') == '&[(usize,usize)]']
        if not sl:
            continue
        for i, c in F.calls(q):
            for a in c['args']:
                pa = a.get('move') or a.get('copy')
                if not pa or pa['p'] or F.local_ty(q, pa['l']).replace(' ', '') != 'std::option::Option<usize>':
                    continue
                rs = F.trace(q, a, deep=True)
                if not any(r[0] in ('param', 'local') and r[1] == sl[0] for r in rs):
                    continue
                nh += 1
                bad = _not_last_sources(F, q, a, sl[0])
                if bad:
                    res.violate('HDR-POS', 'fn=%s;callee=%s' % (q, callee_of(c).split('::')[-1]),
                                'the position shown in the hunk header is taken from %s of the coordinate list; the property requires the start of the last pair '
                                '(the hunk\'s starting line in the new file)' % ', '.join(sorted(bad)), where=F.span_of_call(c))
                else:
                    okh += 1
    res.rule('C05.HDR-POS', nh, 1, 'positions handed (as Some(n)) from a coordinate slice to the hunk-header painter: only the start of the last pair', discharged=okh)
    res.distinct.update(r['rule'] for r in res.rules)
    return res
