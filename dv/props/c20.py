"""C20 — calling-process detection gives the same answer under every thread schedule.

Structural invariants G1..G8 of the mutex/condvar/atomic protocol, decided on MIR (DESIGN.md section 5, C20).
"""
from ..facts import callee_of, callee_full, reach, short

EXPLANATION = (
    "Static protocol check on the cfg(not(test)) MIR of the real mutex/condvar/atomic code (which the test "
    "suite never compiles): every writer through the CALLER guard is either guarded by "
    "`CALLER_INFO_SOURCE.load() != KNOWN` read under the lock (G1) or publishes KNOWN before the guard is dropped (G3); "
    "every write is followed by notify_all (G2); the only condvar wait is wait_while(== Pending) (G4); no lock "
    "re-entry inside a guard's live range (G5); Pending is constructed only by the initialiser / the wait predicate / "
    "derived Clone (G6); the determination thread is started before anything that can query (G7) and a launched "
    "command is published before the first query on that path (G8). Together these imply the schedule-independence "
    "argument in DESIGN.md; the rules are evaluated over all CFG paths, i.e. all interleavings, not sampled schedules.")

CP_ADT = 'utils::process::CallingProcess'


def _is_cp_guard(ty):
    return 'MutexGuard' in ty and 'CallingProcess' in ty


def run(F, tier, res):
    res.assumptions += [
        'std::sync::{Mutex,Condvar,atomic} behave as documented (sequentially consistent reasoning is sound here because '
        'every access to the atomic that matters happens under the mutex: that is what G1/G3 check)',
        'calls through trait objects (dyn Write, boxed draw functions) do not reach calling_process()',
        'determine_calling_process() itself terminates without panicking (OS process-table races are not decided)',
    ]
    res.not_decided += ['OS process-table races inside determine_calling_process', 'panics inside the background thread before the lock']
    if CP_ADT not in F.adts or 'Pending' not in F.variants(CP_ADT):
        res.anchor_missing(CP_ADT + '::Pending')
        return res
    # ---- anchors by signature/effect ----
    cps = [p for p, b in F.fn_bodies.items()
           if b['kind'] == 'Fn' and b['mir']['arg_count'] == 0 and _is_cp_guard(b['mir']['locals'][0])]
    if len(cps) != 1:
        res.anchor_missing('calling_process (fn() -> MutexGuard<CallingProcess>): found %r' % cps)
        return res
    cp = cps[0]
    lockers = {}
    for p in F.fn_bodies:
        for i, c in F.calls(p):
            if callee_of(c).endswith('Mutex::<T>::lock') and 'CallingProcess' in callee_full(c):
                lockers.setdefault(p, []).append(i)
    writers = {}
    for p in F.fn_bodies:
        for i, c in F.calls(p):
            if callee_of(c).endswith('DerefMut>::deref_mut') and _is_cp_guard(callee_full(c)):
                writers.setdefault(p, []).append(i)
    # ---- locked-region helpers: a function that locks CALLER, hands the `&mut CallingProcess` obtained from the guard to a closure
    # parameter and notifies afterwards is not itself the writer: the closures passed to it are, and they run under its lock
    virtual = {}
    for w in list(writers):
        inv = []
        for i, c in F.calls(w):
            cal = callee_of(c)
            if cal.endswith(('FnOnce>::call_once', 'FnMut>::call_mut', 'Fn>::call')) or 'ops::FnOnce' in cal or 'ops::FnMut' in cal or 'ops::Fn<' in cal:
                if any(r[0] == 'call' and r[1].endswith('DerefMut>::deref_mut') and _is_cp_guard(callee_full(r[4])) for a in c['args'] for r in F.trace(w, a, deep=True)):
                    inv.append(i)
        if not inv:
            continue
        found = False
        for x in F.fn_bodies:
            for j, c in F.calls(x):
                if callee_of(c) != w and (c.get('resolved') or '') != w:
                    continue
                for a in c['args']:
                    for r in F.trace(x, a):
                        if r[0] == 'agg' and r[1][0] == 'closure' and r[1][1] in F.fn_bodies:
                            cl = r[1][1]
                            mir = F.bodies[cl]['mir']
                            cp_params = [k for k in range(1, mir['arg_count'] + 1) if 'CallingProcess' in mir['locals'][k] and mir['locals'][k].startswith('&mut')]
                            wbl = []
                            for bi, blk in enumerate(mir['blocks']):
                                if blk['cleanup']:
                                    continue
                                for st in blk['s']:
                                    if st[0] == 'assign' and st[1]['p'] and st[1]['p'][0][0] == 'deref' and st[1]['l'] in cp_params:
                                        wbl.append(bi)
                                t = blk['t']
                                if t[0] == 'call' and t[1]['dest']['p'] and t[1]['dest']['p'][0][0] == 'deref' and t[1]['dest']['l'] in cp_params:
                                    wbl.append(bi)
                                if t[0] == 'drop' and t[1]['p'] and t[1]['p'][0][0] == 'deref' and t[1]['l'] in cp_params:
                                    pass
                            virtual[cl] = {'helper': w, 'inv': inv, 'owner': x}
                            writers[cl] = sorted(set(wbl))
                            found = True
        if found:
            del writers[w]

    def owner(fn):
        return fn.split('::{closure')[0]
    res.rule('C20.census', len(lockers) + len(writers), 3,
             'functions that lock CALLER (%s) and functions that write through its guard (%s)' % (
                 sorted(lockers), sorted(writers)), samples=sorted(lockers))

    # values of the two source constants
    consts = {}
    for p, b in F.const_bodies.items():
        if p.startswith('utils::process::CALLER_'):
            for blk in b['mir']['blocks']:
                for st in blk['s']:
                    if st[0] == 'assign' and st[2][0] == 'use' and 'const' in st[2][1]:
                        v = F.const_value(st[2][1]['const'], p)
                        if v and v[0] == 'int':
                            consts[p] = v[1]

    def const_int(c, path):
        v = F.const_value(c, path)
        if v and v[0] == 'int':
            return v[1]
        rp = c['repr'].replace('const ', '')
        return consts.get(rp)

    # ---- G1 / G3: every writer is guarded or publishes ----
    n_g1 = n_g3 = 0
    stored_vals = set()
    for w, wblocks in sorted(writers.items()):
        blocks = F.blocks(w)
        dom = F.dominators(w)
        S = F.cfg(w)
        P = F.preds(w)
        stores = [(i, c) for i, c in F.calls(w) if callee_of(c).endswith('Atomic::<usize>::store')]
        loads = [(i, c) for i, c in F.calls(w) if callee_of(c).endswith('Atomic::<usize>::load')]
        locks = lockers.get(w, [])
        guard_drops = [i for i, b in enumerate(blocks) if not b['cleanup'] and b['t'][0] == 'drop' and _is_cp_guard(b['t'][4])]
        if w in virtual:
            # the closure runs between the helper's lock and its guard drop: lock at entry, guard dropped after each return
            locks = [0]
            guard_drops = [i for i, b in enumerate(blocks) if not b['cleanup'] and b['t'][0] == 'return']
        if stores:
            # known-writer: G3
            n_g3 += 1
            for (si, sc) in stores:
                if len(sc['args']) > 1 and 'const' in sc['args'][1]:
                    stored_vals.add(const_int(sc['args'][1]['const'], w))
            for wb in wblocks:
                for d in guard_drops:
                    if wb in dom[d] and not any(si in dom[d] for si, _ in stores):
                        res.violate('G3', 'fn=%s' % w,
                                    'the guard of CALLER is dropped on a path on which the KNOWN marker has not been stored: '
                                    'the background thread can lock in between and overwrite the known command with its guess',
                                    where='%s (guard drop bb%d)' % (blocks[d]['t'] and F.bodies[w]['mir']['span']['at'], d))
            if not guard_drops:
                res.violate('G3', 'fn=%s;noguarddrop' % w, 'writer through CALLER guard never drops the guard on a normal path')
        else:
            # guess-writer: G1
            n_g1 += 1
            for wb in wblocks:
                ok = False
                why = 'no dominating branch on CALLER_INFO_SOURCE.load()'
                for dbb in sorted(dom[wb]):
                    t = blocks[dbb]['t']
                    if t[0] != 'switch':
                        continue
                    roots = F.trace(w, t[1])
                    bops = [r for r in roots if r[0] == 'binop']
                    lds = [r for r in roots if r[0] == 'call' and r[1].endswith('Atomic::<usize>::load')]
                    cs = [const_int(r[3], w) for r in roots if r[0] == 'const']
                    cs = [c for c in cs if c is not None]
                    nots = sum(1 for r in roots if r[0] == 'unop' and r[1] == 'Not')
                    if not lds or not bops or not cs:
                        continue
                    # which edge is taken when the source is KNOWN? evaluate cond over the finite domain
                    known = max(consts.values()) if consts else 2
                    opn = bops[0][1]
                    # operand order: (load, const) or (const, load)
                    rv = _find_binop_rvalue(F, w, t[1])
                    if rv is None:
                        continue
                    load_left = 'const' not in rv[2]
                    a, b = (known, cs[0]) if load_left else (cs[0], known)
                    val = {'Le': a <= b, 'Lt': a < b, 'Ge': a >= b, 'Gt': a > b, 'Eq': a == b, 'Ne': a != b}.get(opn)
                    if val is None:
                        continue
                    if nots % 2:
                        val = not val
                    taken = t[3]
                    for v_, b_ in t[2]:
                        if v_ == (1 if val else 0):
                            taken = b_
                    safe_targets = [x for x in set([b_ for _, b_ in t[2]] + [t[3]]) if x != taken]
                    for tgt in safe_targets:
                        if tgt in dom[wb] and P[tgt] == {dbb}:
                            # lock dominates load dominates the branch
                            ld_bbs = [r[2] for r in lds]
                            if all(any(lk in dom[lb] for lk in locks) for lb in ld_bbs) and locks:
                                ok = True
                            else:
                                why = 'CALLER_INFO_SOURCE is loaded before the lock is taken (stale read)'
                if not ok:
                    res.violate('G1', 'fn=%s' % w,
                                'write through the CALLER guard that is neither guarded by a load of the info source under the lock '
                                'nor followed by a KNOWN store: %s' % why,
                                where=F.bodies[w]['mir']['span']['at'])
    res.rule('C20.G1', n_g1, 1, 'guess-writers: store through guard only on the edge not taken when source==KNOWN, load under lock')
    res.rule('C20.G3', n_g3, 1, 'known-writers: Atomic::store dominates every drop of the guard after the write')
    if consts and stored_vals and max(consts.values()) not in stored_vals:
        res.violate('G3', 'stored-value', 'the known-writer does not store the KNOWN marker (stored %r, KNOWN=%r)' % (
            sorted(x for x in stored_vals if x is not None), max(consts.values())))

    # ---- G9: KNOWN is published only together with a value. Both the background thread (G1) and the query (G4) read KNOWN as "the cell
    # holds the command delta launched": a store of KNOWN on a path that does not write the cell leaves it Pending for ever - the
    # thread then skips its own write, and the first query waits on the condvar without end
    n_g9 = 0
    known_val = max(consts.values()) if consts else None
    for p in sorted(F.fn_bodies):
        for (si, sc) in [(i, c) for i, c in F.calls(p) if callee_of(c).endswith('Atomic::<usize>::store')]:
            if not (len(sc['args']) > 1 and 'const' in sc['args'][1] and const_int(sc['args'][1]['const'], p) == known_val and known_val is not None):
                continue
            n_g9 += 1
            wbs = set(writers.get(p, []))
            dom = F.dominators(p)
            written_before = any(wb in dom[si] for wb in wbs)
            from .. import rules as Ru
            miss = Ru.must_pass(F, p, sc['target'], wbs) if (sc['target'] is not None and not written_before) else []
            if not written_before and (miss or not wbs):
                res.violate('G9', 'fn=%s' % p, 'the KNOWN marker is stored on a path on which the calling-process cell is not written: the cell stays Pending, the background '
                            'thread (which trusts KNOWN) skips its own write, and a query blocks for ever', where=F.span_of_call(sc))
    res.rule('C20.G9', n_g9, 1, 'stores of the KNOWN marker: each dominated by, or followed on every path by, a write through the CALLER guard')

    # ---- G2: write followed by notify ----
    def notify_free_return(p, start_blocks, skip_first=False):
        """returns reachable from start_blocks without passing notify_all. For a write block (skip_first) a notify
        earlier in the same critical section (after the lock) counts as well: the waiter cannot re-acquire the mutex
        before the writer unlocks, so it observes the written value."""
        blocks = F.blocks(p)
        S = F.cfg(p)
        notif = {i for i, c in F.calls(p) if 'Condvar::notify_all' in callee_of(c)}
        rets = {i for i, b in enumerate(blocks) if not b['cleanup'] and b['t'][0] == 'return'}
        bad = []
        for sb in start_blocks:
            if skip_first:
                lock_targets = [blocks[lb]['t'][1]['target'] for lb in lockers.get(p, [])]
                before = reach(S, lock_targets, avoid=notif) if lock_targets else {sb}
                if sb not in before:
                    continue  # every path lock -> write passes a notify
            starts = S.get(sb, []) if skip_first else [sb]
            r = reach(S, list(starts), avoid=notif)
            bad += [x for x in rets if x in r]
        return bad
    thread_writers = [w for w in writers if not any(callee_of(c).endswith('Atomic::<usize>::store') for _, c in F.calls(w))]
    known_writers = [w for w in writers if w not in thread_writers]
    thread_always_notifies = True
    n_g2 = 0
    def helper_notifies(w):
        h = virtual[w]['helper']
        Sh = F.cfg(h)
        starts = [x for ib in virtual[w]['inv'] for x in Sh.get(ib, [])]
        return not notify_free_return(h, starts)
    for w in thread_writers:
        n_g2 += 1
        if w in virtual:
            if not helper_notifies(w):
                res.violate('G2', 'fn=%s;after-write' % w, 'the helper that runs this update under the lock does not notify_all on every path after it: a waiter sleeps forever',
                            where=F.bodies[virtual[w]['helper']]['mir']['span']['at'])
            if notify_free_return(virtual[w]['helper'], [0]):
                thread_always_notifies = False
            continue
        if notify_free_return(w, writers[w], skip_first=True):
            res.violate('G2', 'fn=%s;after-write' % w,
                        'a path through the store of the determined process has no Condvar::notify_all between lock and return: a waiter sleeps forever',
                        where=F.bodies[w]['mir']['span']['at'])
        if notify_free_return(w, [0]):
            thread_always_notifies = False
    for w in known_writers:
        n_g2 += 1
        if w in virtual:
            if not helper_notifies(w) and not thread_always_notifies:
                res.violate('G2', 'fn=%s;after-write' % w, 'neither the helper that runs this update nor the background thread notifies after the value is published',
                            where=F.bodies[virtual[w]['helper']]['mir']['span']['at'])
            continue
        if notify_free_return(w, writers[w], skip_first=True) and not thread_always_notifies:
            res.violate('G2', 'fn=%s;after-write' % w,
                        'neither this writer nor the background thread (on its no-write path) notifies after the value is published',
                        where=F.bodies[w]['mir']['span']['at'])
    res.rule('C20.G2', n_g2, 1, 'every write through the guard is followed by notify_all on all normal paths (or another notifier is guaranteed)')

    # ---- G4: the only condvar wait is wait_while(== Pending) ----
    waits = []
    for p in F.fn_bodies:
        for i, c in F.calls(p):
            cal = callee_of(c)
            if 'Condvar::wait' in cal:
                waits.append((p, i, c))
    for (p, i, c) in waits:
        cal = callee_of(c)
        if not cal.endswith('Condvar::wait_while') or 'CallingProcess' not in callee_full(c):
            if 'CallingProcess' in callee_full(c) or p in lockers:
                res.violate('G4', 'fn=%s;callee=%s' % (p, cal), 'condvar wait other than wait_while on CALLER (lost wake-up / spurious wake-up unsafe)',
                            where=F.span_of_call(c))
            continue
        # the predicate closure
        clos = [r for r in F.trace(p, c['args'][2]) if r[0] == 'agg' and r[1][0] == 'closure']
        if not clos:
            res.violate('G4', 'fn=%s;predicate' % p, 'wait_while predicate is not a closure literal: cannot decide', where=F.span_of_call(c))
            continue
        cl = clos[0][1][1]
        ok = _closure_is_eq_pending(F, cl)
        if not ok:
            res.violate('G4', 'fn=%s;predicate' % p, 'wait_while predicate is not `*caller == CallingProcess::Pending` '
                        '(waits while the answer is ready, or never waits for it)', where=F.bodies[cl]['mir']['span']['at'])
    res.rule('C20.G4', len(waits), 1, 'condvar waits in the crate; each must be wait_while with predicate == Pending')
    # the value calling_process returns must be the wait_while result
    rets = [r for r in F.trace(cp, {'copy': {'l': 0, 'p': []}}) if r[0] == 'call']
    if not any(r[1].endswith('Condvar::wait_while') for r in rets):
        res.violate('G4', 'fn=%s;return' % cp, 'calling_process() returns a guard that did not come out of wait_while (may be Pending)',
                    where=F.bodies[cp]['mir']['span']['at'])

    # ---- G6: who constructs Pending ----
    ctors = []
    for p, b in F.bodies.items():
        mirs = [('', b['mir'])] + [('promoted', pm) for pm in b.get('promoted', [])]
        for tag, m in mirs:
            for blk in m['blocks']:
                for st in blk['s']:
                    if st[0] == 'assign' and st[2][0] == 'agg' and st[2][1][0] == 'adt' and st[2][1][1] == CP_ADT and st[2][1][3] == 'Pending':
                        ctors.append(p)
    allowed = 0
    for p in sorted(set(ctors)):
        is_init = any(callee_of(c).endswith('Mutex::<T>::new') for _, c in F.calls(p)) if p in F.fn_bodies else False
        is_wait_pred = any(p == r[1][1] for (wp, i, c) in waits for r in F.trace(wp, c['args'][2]) if r[0] == 'agg' and r[1][0] == 'closure') if waits else False
        is_clone = p.startswith('<%s as std::clone::Clone>' % CP_ADT)
        if is_init or is_wait_pred or is_clone:
            allowed += 1
        else:
            res.violate('G6', 'fn=%s' % p, 'CallingProcess::Pending is constructed outside the initialiser / the wait predicate: '
                        'a query could return, or be woken for, an unfinished answer', where=F.bodies[p]['mir']['span']['at'])
    res.rule('C20.G6', len(set(ctors)), 2, 'constructors of CallingProcess::Pending: %s' % sorted(set(ctors)), discharged=allowed)

    # ---- G5: no re-entrant lock within a guard's live range ----
    reaches_lock = F.reverse_reaching(set(lockers) | {cp})
    n_sites = 0
    for p in F.fn_bodies:
        blocks = F.blocks(p)
        S = F.cfg(p)
        for i, c in F.calls(p):
            cal = callee_of(c)
            is_cp = cal == cp
            is_lock_unwrap = False
            if not is_cp:
                continue
            n_sites += 1
            holders = {c['dest']['l']}
            seen = set()
            st = [c['target']]
            while st:
                n = st.pop()
                if n in seen or n is None:
                    continue
                seen.add(n)
                blk = blocks[n]
                if blk['cleanup']:
                    continue
                stop = False
                for s_ in blk['s']:
                    if s_[0] == 'assign' and s_[2][0] == 'use':
                        pl = s_[2][1].get('move')
                        if pl and pl['l'] in holders and not pl['p'] and not s_[1]['p']:
                            holders.add(s_[1]['l'])
                t = blk['t']
                if t[0] == 'drop' and t[1]['l'] in holders and not t[1]['p']:
                    stop = True
                if t[0] == 'call':
                    r = callee_of(t[1])
                    if n != i and r in reaches_lock:
                        res.violate('G5', 'fn=%s;callee=%s' % (p, r),
                                    'call that can reach the CALLER lock while a guard returned by calling_process() is still alive: self-deadlock',
                                    where=F.span_of_call(t[1]))
                    for a in t[1]['args']:
                        pl = a.get('move')
                        if pl and pl['l'] in holders and not pl['p']:
                            stop = True
                if t[0] == 'return':
                    stop = True
                if not stop:
                    st.extend(S.get(n, []))
    res.rule('C20.G5', n_sites, 3, 'calling_process() call sites whose guard live range was scanned for calls reaching the lock')
    # also inside the lockers themselves: between lock and guard drop no call reaching the lock
    for p, lbs in lockers.items():
        blocks = F.blocks(p)
        S = F.cfg(p)
        for lb in lbs:
            seen = set()
            st = [blocks[lb]['t'][1]['target']]
            while st:
                n = st.pop()
                if n in seen or n is None or blocks[n]['cleanup']:
                    continue
                seen.add(n)
                t = blocks[n]['t']
                if t[0] == 'drop' and _is_cp_guard(t[4]):
                    continue
                if t[0] == 'call' and callee_of(t[1]) in reaches_lock and not callee_of(t[1]).endswith('wait_while'):
                    res.violate('G5', 'fn=%s;callee=%s' % (p, callee_of(t[1])), 'lock re-entry while holding the CALLER lock', where=F.span_of_call(t[1]))
                if t[0] == 'return':
                    continue
                st.extend(S.get(n, []))

    # ---- G7: the thread is started before anything that can query ----
    reaches_cp = F.reverse_reaching({cp})
    starters = [p for p in F.fn_bodies if any(
        r == q for q in thread_writers for r in F.callgraph().get(p, ()))]
    mains = [p for p in F.fn_bodies if p == 'main']
    n_g7 = 0
    if not mains:
        res.anchor_missing('main')
    for m in mains:
        dom = F.dominators(m)
        start_bbs = [i for i, c in F.calls(m) if callee_of(c) in starters or callee_of(c) in F.reverse_reaching(set(thread_writers)) - {m}]
        if not start_bbs:
            res.violate('G7', 'fn=main;nostart', 'main never starts the calling-process determination: every query blocks forever',
                        where=F.bodies[m]['mir']['span']['at'])
        for i, c in F.calls(m):
            if callee_of(c) in reaches_cp and i not in start_bbs:
                n_g7 += 1
                if not any(sb in dom[i] for sb in start_bbs):
                    res.violate('G7', 'fn=main;callee=%s' % callee_of(c),
                                'a call that can query the calling process is not dominated by the start of the determination thread',
                                where=F.span_of_call(c))
    res.rule('C20.G7', n_g7, 1, 'calls in main that can reach calling_process(); each dominated by the thread start')

    # ---- G8: a launched command is published before the first query on that path ----
    n_g8 = 0
    for p in F.fn_bodies:
        S = F.cfg(p)
        kw_fns = set(known_writers) | {owner(w) for w in known_writers}
        set_bbs = [i for i, c in F.calls(p) if callee_of(c) in kw_fns]
        if not set_bbs:
            continue
        for i, c in F.calls(p):
            if i in set_bbs:
                continue
            if callee_of(c) in reaches_cp:
                n_g8 += 1
                r = reach(S, S.get(i, []))
                if any(sb in r for sb in set_bbs):
                    res.violate('G8', 'fn=%s;callee=%s' % (p, callee_of(c)),
                                'the calling process can be queried before the launched command is published on the same path: '
                                'the query returns the background guess instead of the launched command',
                                where=F.span_of_call(c))
    res.rule('C20.G8', n_g8, 3, 'calls that can reach calling_process() in the function that publishes the launched command')
    res.distinct.update(r['rule'] for r in res.rules)
    return res


def _find_binop_rvalue(F, path, op, depth=0):
    """follow a switch operand back to the binop rvalue that computes it"""
    if depth > 6 or 'const' in op:
        return None
    pl = op.get('copy') or op.get('move')
    if pl is None or pl['p']:
        return None
    for (bb, kind, payload) in F.local_defs(path).get(pl['l'], []):
        if kind == 'assign':
            if payload[0] == 'binop':
                return payload
            if payload[0] == 'use':
                r = _find_binop_rvalue(F, path, payload[1], depth + 1)
                if r:
                    return r
            if payload[0] == 'unop':
                r = _find_binop_rvalue(F, path, payload[2], depth + 1)
                if r:
                    return r
    return None


def _closure_is_eq_pending(F, cl):
    if cl not in F.bodies:
        return False
    roots = F.trace(cl, {'copy': {'l': 0, 'p': []}})
    calls = [r for r in roots if r[0] == 'call']
    nots = sum(1 for r in roots if r[0] == 'unop' and r[1] == 'Not')
    for r in calls:
        if r[1].endswith('PartialEq>::eq') or r[1].endswith('PartialEq>::ne'):
            neg = r[1].endswith('::ne')
            lits = []
            for a in r[4]['args']:
                lits += F.operand_literals(cl, a)
            has_pending = any(v[0] == 'enum' and v[1] == CP_ADT and v[2] == 'Pending' for v in lits)
            # one side must be the closure's argument
            from_arg = any(rr[0] == 'param' for a in r[4]['args'] for rr in F.trace(cl, a))
            if has_pending and from_arg and ((nots % 2 == 1) == neg):
                return True
    # matches!(*caller, Pending) shape: a switch on the discriminant of the argument. Decide by partial evaluation: with the
    # discriminant fixed to each variant in turn, which constant can the closure return?
    from .. import fdeval
    blocks = F.blocks(cl)
    for bi, blk in enumerate(blocks):
        for st in blk['s']:
            if st[0] == 'assign' and st[2][0] == 'discr' and len(st[2]) >= 4 and st[2][2] == CP_ADT and not st[1]['p']:
                src = st[2][1]
                if not any(rr[0] == 'param' for rr in F.trace(cl, {'copy': {'l': src['l'], 'p': []}})):
                    continue
                dl = st[1]['l']
                variants = {name: int(val) for val, name in st[2][3]}
                if 'Pending' not in variants:
                    return False
                verdict = {}
                for name, val in variants.items():
                    # the discriminant is assigned in block bi; fix it from there on by evaluating from the block's successor set
                    try:
                        reached = _reach_after_assign(F, cl, bi, dl, val)
                    except fdeval.Undecidable:
                        return False
                    outs = set()
                    for rb in reached:
                        for st2 in blocks[rb]['s']:
                            if st2[0] == 'assign' and st2[1]['l'] == 0 and not st2[1]['p'] and st2[2][0] == 'use' and 'const' in st2[2][1]:
                                outs.add(st2[2][1]['const'].get('repr'))
                    verdict[name] = outs
                return verdict.get('Pending') in ({'true'}, {'const true'}) and all(
                    v in ({'false'}, {'const false'}) for k, v in verdict.items() if k != 'Pending')
    return False


def _reach_after_assign(F, cl, bi, local, val):
    """blocks reachable from block bi's terminator with `local` = val (the statements of bi after the assignment are constant-free here)"""
    from .. import fdeval
    blocks = F.blocks(cl)
    t = blocks[bi]['t']
    if t[0] == 'switch':
        pl = t[1].get('copy') or t[1].get('move')
        if pl and not pl['p'] and pl['l'] == local:
            tgt = next((tg for x, tg in t[2] if x == val), t[3])
            return _reach_from(F, cl, tgt, {local: val})
    succ = F.cfg(cl).get(bi, [])
    out = set()
    for sbb in succ:
        out |= _reach_from(F, cl, sbb, {local: val})
    return out


def _reach_from(F, cl, start, fixed):
    from .. import fdeval
    # reach_with starts at block 0; emulate a start block by a tiny wrapper: explore manually
    blocks = F.blocks(cl)
    seen = set()
    work = [start]
    out = set()
    while work:
        b = work.pop()
        if b in seen:
            continue
        seen.add(b)
        out.add(b)
        t = blocks[b]['t']
        if t[0] == 'switch':
            pl = t[1].get('copy') or t[1].get('move')
            if pl and not pl['p'] and pl['l'] in fixed:
                v = fixed[pl['l']]
                work.append(next((tg for x, tg in t[2] if x == v), t[3]))
                continue
            work.extend([tg for _, tg in t[2]] + [t[3]])
        elif t[0] == 'goto':
            work.append(t[1])
        elif t[0] == 'call' and t[1].get('target') is not None:
            work.append(t[1]['target'])
        elif t[0] == 'assert':
            work.append(t[4])
        elif t[0] == 'drop':
            work.append(t[2])
    return out
