"""C18 — exit status and pager protocol: all output delivered, quits are silent (structural part)."""
from .. import rules as Ru
from ..facts import callee_of, callee_full, reach

EXPLANATION = (
    "MIR rules. NO-PRINT: std::io::_print / Stdout::write* are unreachable from the renderer (delta::delta), so every rendering write goes "
    "through the fallible writer. ERR-DISCIPLINE: in functions reachable from the renderer no Result<_, io::Error> is unwrapped / expect-ed / "
    ".ok()-ed / defaulted, and no result of a writer call is dropped. BROKEN-PIPE: in run_app every `?` that can propagate an io::Error applies "
    "to a value that has passed through a function mapping ErrorKind::BrokenPipe to Ok, and every explicit match on error.kind() has a BrokenPipe "
    "arm from which neither _eprint nor fatal is reachable before the return; the error arms print and return the error exit code. EXIT: "
    "process::exit is called only from main after run_app returned, from fatal, or on a BrokenPipe arm; Drop for OutputType waits for the pager "
    "child. STATUS: run_app returns a value derived from ExitStatus::code of the spawned child on the subcommand path and never a non-zero "
    "constant. PAGER: the pager command is config.or(env), the env pair is consulted DELTA_PAGER first, `less` is the default, and "
    "--RAW-CONTROL-CHARS is added on the edge where the arguments are delta's to choose.")


def _kind_switches(F, p):
    """switches that discriminate std::io::ErrorKind: yields (switch_bb, brokenpipe_target, other_targets)"""
    out = []
    blocks = F.blocks(p)
    for (sb, op, arms, other) in Ru.switches(F, p):
        pl = op.get('copy') or op.get('move')
        if pl is None or pl['p']:
            continue
        for (dbb, kind, payload) in F.local_defs(p).get(pl['l'], []):
            if kind == 'assign' and payload[0] == 'discr' and len(payload) >= 4 and payload[2].endswith('ErrorKind'):
                names = {int(v): n for v, n in payload[3]}
                bp = [b for v, b in arms if names.get(v) == 'BrokenPipe']
                if bp:
                    out.append((sb, bp[0], [b for v, b in arms if names.get(v) != 'BrokenPipe'] + [other]))
                else:
                    out.append((sb, None, [b for v, b in arms] + [other]))
        # eq(&kind, &BrokenPipe)
        roots = F.trace(p, op)
        for r in roots:
            if r[0] == 'call' and r[1].endswith('PartialEq>::eq') and 'ErrorKind' in r[1]:
                lits = [v for a in r[4]['args'] for v in F.operand_literals(p, a)]
                if any(v[0] == 'enum' and v[2] == 'BrokenPipe' for v in lits):
                    tt, ft = Ru.bool_edges(arms, other)
                    neg = Ru.negations(F, p, op) % 2 == 1
                    out.append((sb, ft if neg else tt, [tt if neg else ft]))
    return out


def maps_broken_pipe(F, p):
    """does fn p map ErrorKind::BrokenPipe to an Ok return?"""
    if p not in F.fn_bodies:
        return False
    for (sb, bp, others) in _kind_switches(F, p):
        if bp is None:
            continue
        # on the BrokenPipe edge an Ok aggregate is assigned to the return place
        for b in reach(F.cfg(p), bp):
            for st in F.blocks(p)[b]['s']:
                if st[0] == 'assign' and not st[1]['p'] and st[1]['l'] == 0 and st[2][0] == 'agg' and st[2][1][0] == 'adt' and st[2][1][3] == 'Ok':
                    return True
    return False


def run(F, tier, res):
    res.assumptions += ['the OS delivers EPIPE as io::ErrorKind::BrokenPipe (SIGPIPE is ignored by the Rust runtime)',
                        'calls through the `dyn Write` sink are fallible writes']
    res.not_decided += ['that the bytes written reach the pager; signals; behaviour of the pager itself', 'Windows-specific arms']
    delta = [p for p in F.fn_bodies if p == 'delta::delta']
    ra = [p for p in F.fn_bodies if p == 'run_app']
    mains = [p for p in F.fn_bodies if p == 'main']
    if not delta or not ra or not mains:
        res.anchor_missing('delta::delta / run_app / main')
        return res
    render = F.reachable_from(delta)
    # ---------- NO-PRINT
    n = 0
    for p in sorted(render):
        for i, c in F.calls(p):
            n += 1
            r = callee_of(c)
            if r in ('std::io::_print',) or (r.startswith('<std::io::Stdout as std::io::Write>') ) or r.endswith('Stdout::lock') and False:
                res.violate('NO-PRINT', 'fn=%s;callee=%s' % (p, r), 'the renderer writes to stdout directly (print!/Stdout::write) instead of through the fallible writer: '
                            'bypasses the pager and panics on a closed pipe', where=F.span_of_call(c))
    res.rule('C18.NO-PRINT', n, 1500, 'calls in the %d functions reachable from the renderer, none to std::io::_print / Stdout::write' % len(render))
    # positive control: _print exists elsewhere in the crate (so the matcher can match)
    ctl = Ru.call_sites(F, lambda r, c: r == 'std::io::_print')
    res.rule('C18.NO-PRINT.control', len(ctl), 1, 'positive control: call sites of std::io::_print outside the renderer (the matcher matches)')
    # ---------- ERR-DISCIPLINE
    ne = 0
    for p in sorted(render):
        mir = F.bodies[p]['mir']
        blocks = F.blocks(p)
        for i, c in F.calls(p):
            r = callee_of(c)
            full = callee_full(c)
            if 'std::io::Error' in full and r.startswith('std::result::Result::<T, E>::') and r.endswith(('::unwrap', '::expect', '::ok', '::unwrap_or', '::unwrap_or_default', '::unwrap_or_else', '::is_ok', '::is_err')):
                # only results that come from the output sink
                if any(rr[0] == 'call' and (rr[1].endswith('write_fmt') or rr[1].endswith('::write_all') or rr[1].endswith('::flush') or rr[1].endswith('::write')) for rr in F.trace(p, c['args'][0], deep=True)) or \
                        any(rr[0] == 'call' and rr[1] in render and F.bodies[rr[1]]['mir']['locals'][0].startswith('std::result::Result<') and 'std::io::Error' in F.bodies[rr[1]]['mir']['locals'][0] for rr in F.trace(p, c['args'][0])):
                    res.violate('ERR-DISCIPLINE', 'fn=%s;callee=%s' % (p, r.split('::')[-1]), 'an io::Error from an output write is unwrapped or discarded in the renderer: '
                                'a closed pipe panics or is ignored instead of ending delta quietly', where=F.span_of_call(c))
            if r == 'std::io::Write::write' or r.endswith(' as std::io::Write>::write'):
                res.violate('ERR-DISCIPLINE', 'fn=%s;short-write' % p, 'the renderer calls Write::write (which may write only part of the buffer) instead of write_all / write!: '
                            'output is silently lost when the reader is slow and the write is interrupted', where=F.span_of_call(c))
            # dropped results of writer calls: dest local of type Result<(), io::Error> never used
            dty = c.get('dest_ty', '')
            if dty.startswith('std::result::Result<') and 'std::io::Error' in dty and not c['dest']['p'] and c['target'] is not None:
                involves_writer = r.endswith(('write_fmt', '::write_all', '::flush')) or (r in render)
                if not involves_writer:
                    continue
                ne += 1
                dl = c['dest']['l']
                used = False
                for b in blocks:
                    if b['cleanup']:
                        continue
                    for st in b['s']:
                        if st[0] == 'assign' and any((o.get('move') or o.get('copy') or o if 'l' in o else {}).get('l') == dl for o in [x for x in st[2][1:] if isinstance(x, dict)] + [y for x in st[2][1:] if isinstance(x, list) for y in x if isinstance(y, dict)]):
                            used = True
                    t = b['t']
                    if t[0] == 'call' and any((a.get('move') or a.get('copy') or {}).get('l') == dl for a in t[1]['args']):
                        used = True
                    if t[0] == 'switch' and (t[1].get('move') or t[1].get('copy') or {}).get('l') == dl:
                        used = True
                    if t[0] == 'return' and dl == 0:
                        used = True
                if dl == 0:
                    used = True
                if not used:
                    res.violate('ERR-DISCIPLINE', 'fn=%s;dropped=%s' % (p, r.split('::')[-1]), 'the result of an output write is dropped in the renderer: a closed pipe goes unnoticed',
                                where=F.span_of_call(c))
    res.rule('C18.ERR-DISCIPLINE', ne, 40, 'fallible output calls in the renderer whose io::Result is consumed (propagated with ?, matched, or returned)')
    # ---------- BROKEN-PIPE
    p = ra[0]
    blocks = F.blocks(p)
    S = F.cfg(p)
    nb = okb = 0
    for i, c in F.calls(p):
        if 'from_residual' not in callee_of(c):
            continue
        dty = F.bodies[p]['mir']['locals'][0]
        # the matching Try::branch: residual traces to branch(x)
        roots = F.trace(p, c['args'][0])
        srcs = [r for r in roots if r[0] == 'call' and not r[1].endswith('Try>::branch')]
        if not srcs:
            continue
        nb += 1
        if any(maps_broken_pipe(F, r[1]) for r in srcs):
            okb += 1
        else:
            res.violate('BROKEN-PIPE', 'fn=%s;propagates=%s' % (p, ','.join(sorted({r[1].split('::')[-1] for r in srcs}))),
                        'an io::Error from an output path is propagated with `?` out of run_app without mapping BrokenPipe to a silent exit 0: '
                        '`delta ... | head -1` prints "Error: Os { code: 32, kind: BrokenPipe }" and exits 1', where=F.span_of_call(c))
    ks = _kind_switches(F, p)
    eprints = {i for i, c in F.calls(p) if callee_of(c) in ('std::io::_eprint',) or callee_of(c).endswith('fatal')}
    for (sb, bp, others) in ks:
        nb += 1
        if bp is None:
            res.violate('BROKEN-PIPE', 'fn=%s;no-arm' % p, 'a match on error.kind() in run_app has no BrokenPipe arm', where=F.bodies[p]['mir']['span']['at'])
            continue
        # region dominated by the BrokenPipe edge
        region = [b for b in reach(S, bp) if Ru.edge_dominates(F, p, sb, bp, b) or b == bp]
        if any(b in eprints for b in region):
            res.violate('BROKEN-PIPE', 'fn=%s;noisy-arm' % p, 'the BrokenPipe arm prints an error message / calls fatal: a quit pager is not silent', where=F.bodies[p]['mir']['span']['at'])
            continue
        okb += 1
    # ... and nothing is printed between the failing output call and the test for BrokenPipe either (`wait()...unwrap_or_else(|| eprintln!(..))`
    # hoisted in front of the test reports a child killed by the closed pipe)
    printers = {q for q in F.fn_bodies if any(callee_of(cc) == 'std::io::_eprint' for _, cc in F.calls(q))}
    can_print = F.reverse_reaching(list(printers)) | printers
    P_ = F.preds(p)

    def _prints(cc):
        cal = callee_of(cc)
        if cal == 'std::io::_eprint' or cal in can_print or (cc.get('resolved') or '') in can_print:
            return True
        return any(x[0] == 'agg' and x[1][0] == 'closure' and x[1][1] in can_print for a in cc['args'] for x in F.trace(p, a))
    for (sb, bp, others) in ks:
        if bp is None:
            continue
        srcs = [r for r in F.trace(p, blocks[sb]['t'][1], deep=True) if r[0] == 'call' and r[1] in F.fn_bodies and 'std::io::Error' in r[4].get('dest_ty', '')]
        back = set()
        work = [sb]
        while work:
            x = work.pop()
            if x in back:
                continue
            back.add(x)
            work += list(P_.get(x, ()))
        for r in srcs:
            tgt = r[4].get('target')
            if tgt is None:
                continue
            nb += 1
            between = (reach(S, [tgt]) | {tgt}) & back
            noisy = [b for b in between if blocks[b]['t'][0] == 'call' and b != r[2] and _prints(blocks[b]['t'][1])]
            if noisy:
                res.violate('BROKEN-PIPE', 'fn=%s;noisy-before-arm' % p, 'between the output call that can fail with BrokenPipe (%s) and the test for it, run_app calls something that prints to stderr (%s): '
                            'when the reader has gone away delta is not silent' % (r[1].split('::')[-1], callee_of(blocks[noisy[0]]['t'][1]).split('::')[-1]), where=F.span_of_call(blocks[noisy[0]]['t'][1]))
            else:
                okb += 1
    # printing an io::Error obtained from an output path is allowed only on a non-BrokenPipe arm
    for i, c in F.calls(p):
        if callee_of(c) != 'std::io::_eprint':
            continue
        roots = F.trace(p, c['args'][0], deep=True)
        io_src = [r for r in roots if r[0] == 'call' and r[4].get('dest_ty', '').startswith('std::result::Result<') and 'std::io::Error' in r[4].get('dest_ty', '')
                  and (r[1] in F.fn_bodies or r[1].endswith(('write_fmt', '::write_all')))]
        if not io_src:
            continue
        nb += 1
        if any(any(Ru.edge_dominates(F, p, sb, o, i) or o == i for o in others if o is not None) for (sb, bp, others) in ks if bp is not None):
            okb += 1
        else:
            res.violate('BROKEN-PIPE', 'fn=%s;prints-error-unconditionally' % p, 'an io::Error from an output path is printed without first excluding BrokenPipe: a quit pager produces an error message',
                        where=F.span_of_call(c))
    res.rule('C18.BROKEN-PIPE', nb, 2, '`?` propagation sites of io::Error in run_app (each through a BrokenPipe-mapping function) + explicit error.kind() matches (each with a silent BrokenPipe arm)', discharged=okb)
    # ---------- EXIT
    nx = okx = 0
    for (q, i, c) in Ru.call_sites(F, lambda r, c: r == 'std::process::exit'):
        nx += 1
        ok_ = False
        if q in mains:
            dom = F.dominators(q)
            rapp = [j for j, cc in F.calls(q) if callee_of(cc) in ra]
            ok_ = any(j in dom[i] for j in rapp)
            why = 'process::exit in main is not dominated by the return of run_app (drop of the pager handle would be skipped)'
        elif q.endswith('fatal') or q == 'fatal':
            ok_ = True
        else:
            ok_ = any(bp is not None and (Ru.edge_dominates(F, q, sb, bp, i) or bp == i) for (sb, bp, others) in _kind_switches(F, q))
            why = 'process::exit outside main/fatal that is not on a BrokenPipe arm: the pager is not waited for'
        if ok_:
            okx += 1
        else:
            res.violate('EXIT', 'fn=%s' % q, why, where=F.span_of_call(c))
    drops = [q for q in F.fn_bodies if 'Drop' in q and 'OutputType' in q]
    nx += 1
    if drops and any(callee_of(c).endswith('Child::wait') for _, c in F.calls(drops[0])):
        # on the Pager variant edge
        okx += 1
    else:
        res.violate('EXIT', 'drop-wait', 'Drop for OutputType does not wait for the pager child: delta can exit (and the terminal be restored) before the pager does', where=drops[0] if drops else '-')
    # no abrupt exit once the pager exists: between the creation of the output handle in run_app and its return, nothing that can
    # reach process::exit may be called, other than the renderer itself (whose aborts are C03.P4's business) - process::exit skips
    # Drop for OutputType, so delta would leave before the pager and replace the status it is about to return
    EXIT_OK_AFTER_PAGER = {'delta::delta': 'the renderer (explicit aborts triaged by C03.P4)', 'config::delta_unreachable': 'unreachable match arm'}
    direct_exit = [q for q in F.fn_bodies for _, cc in F.calls(q) if callee_of(cc) == 'std::process::exit']
    exiters = F.reverse_reaching(direct_exit)
    CGx = F.callgraph()

    def _exits_only_via_accepted(fn):
        """process::exit is reachable from fn only through the accepted functions (a helper extracted from run_app that keeps the
        `unwrap_or_else(|_| delta_unreachable(..))` of the code it was cut from)"""
        seen, work = set(), [fn]
        while work:
            x = work.pop()
            if x in seen or x in EXIT_OK_AFTER_PAGER:
                continue
            seen.add(x)
            if x in direct_exit:
                return False
            work += [y for y in CGx.get(x, ()) if y in exiters]
        return True
    for q in ra:
        fm = [i for i, cc in F.calls(q) if callee_of(cc).endswith('OutputType::from_mode')]
        if not fm:
            res.anchor_missing('OutputType::from_mode call in run_app')
            continue
        after = set()
        for b in fm:
            after |= reach(F.cfg(q), F.cfg(q).get(b, []))
        for i, cc in F.calls(q):
            cal = callee_of(cc)
            if i in after and (cal in exiters or cal == 'std::process::exit'):
                nx += 1
                if cal in EXIT_OK_AFTER_PAGER or (cal != 'std::process::exit' and _exits_only_via_accepted(cal)):
                    okx += 1
                else:
                    res.violate('EXIT', 'fn=%s;after-pager;callee=%s' % (q, cal), 'run_app calls %s, which can end the process with process::exit, while the pager handle is alive: '
                                'delta exits before the pager does (Drop is skipped) and the status being passed through is replaced' % cal, where=F.span_of_call(cc))
    res.rule('C18.EXIT', nx, 3, 'process::exit call sites + the pager wait in Drop for OutputType', discharged=okx)
    # ---------- STATUS
    rets = []
    for b in blocks:
        if b['cleanup']:
            continue
        for st in b['s']:
            if st[0] == 'assign' and not st[1]['p'] and st[1]['l'] == 0 and st[2][0] == 'agg' and st[2][1][0] == 'adt' and st[2][1][3] == 'Ok':
                rets.append(st[2][2][0])
    nst = okst = 0
    has_code = False
    for o in rets:
        nst += 1
        vals = F.operand_literals(p, o)
        roots = F.trace(p, o)
        def _from_code(fn, rs, depth=0):
            if any(r[0] == 'call' and r[1].endswith('ExitStatus::code') for r in rs):
                return True
            if depth >= 2:
                return False
            for r in rs:
                if r[0] == 'call':
                    q_ = r[1] if r[1] in F.fn_bodies else (r[4].get('resolved') or '')
                    if q_ in F.fn_bodies and _from_code(q_, F.trace(q_, {'copy': {'l': 0, 'p': []}}), depth + 1):
                        return True
            return False
        if _from_code(p, roots):
            has_code = True
        bad = [v for v in vals if v[0] == 'int' and v[1] != 0]
        if bad:
            res.violate('STATUS', 'fn=%s;const=%s' % (p, bad[0][1]), 'run_app returns a non-zero constant exit status', where=F.bodies[p]['mir']['span']['at'])
        else:
            okst += 1
    nst += 1
    if has_code:
        okst += 1
    else:
        res.violate('STATUS', 'fn=%s;no-passthrough' % p, 'the exit status of the wrapped command is not passed through (no return value derives from ExitStatus::code)', where=F.bodies[p]['mir']['span']['at'])
    # delta exits with run_app's value
    for m in mains:
        for i, c in F.calls(m):
            if callee_of(c) == 'std::process::exit':
                nst += 1
                if any(r[0] == 'call' and r[1] in ra for r in F.trace(m, c['args'][0])):
                    okst += 1
                else:
                    res.violate('STATUS', 'fn=main;exit-arg', 'main does not exit with the status computed by run_app', where=F.span_of_call(c))
    res.rule('C18.STATUS', nst, 8, 'Ok(..) return values of run_app (none a non-zero constant; one derived from ExitStatus::code) + main exits with it', discharged=okst)
    # ---------- WAIT-CLOSED: when the reader has gone away delta waits for the child it feeds from (`let _ = cmd.wait()`) and exits 0. That
    # wait returns only if the child can finish, i.e. if delta no longer holds the read end of the child's stdout: the handle must have been
    # MOVED out of the Child (stdout.take(), or the field moved) into the reader that delta() consumes and drops - not borrowed from it
    # (as_mut / as_ref / &mut): a borrowed pipe stays open inside the Child, the child blocks on a full pipe, and wait() never returns
    nwc = okwc = 0
    CHILD = 'std::process::Child'
    for q in sorted(F.fn_bodies):
        if q.startswith('<') and 'Drop' not in q:
            pass
        defs = F.local_defs(q)
        for bi, blk in enumerate(F.blocks(q)):
            if blk['cleanup']:
                continue
            for st in blk['s']:
                if not (st[0] == 'assign' and st[2][0] in ('ref', 'rawptr')):
                    continue
                pl = st[2][2]
                if not any(pr[0] == 'field' and pr[2] == CHILD and pr[3] == 'stdout' for pr in pl['p']):
                    continue
                nwc += 1
                dl = st[1]['l']
                # the call that receives this reference
                users = [callee_of(c) for _, c in F.calls(q) if any((a.get('move') or a.get('copy') or {}).get('l') == dl for a in c['args'])]
                if users and all(u.endswith(('::take', 'mem::take', 'mem::replace')) for u in users):
                    okwc += 1
                else:
                    res.violate('WAIT-CLOSED', 'fn=%s;via=%s' % (q, (users or ['borrow'])[0].split('::')[-1]),
                                'the child\'s stdout pipe is borrowed from the Child (%s) instead of being moved out of it: after the reader has gone away the read end stays open '
                                'inside the Child, the child blocks on a full pipe and the wait() on the broken-pipe path never returns (delta hangs instead of exiting 0)'
                                % (users or ['&mut'])[0].split('::')[-1], where=F.bodies[q]['mir']['span']['at'])
    res.rule('C18.WAIT-CLOSED', nwc, 0, 'references to the stdout field of a std::process::Child: each is the receiver of Option::take (the handle leaves the Child before delta waits for it)', discharged=okwc)
    # ---------- PAGER
    tp = [q for q in F.fn_bodies if q.endswith('OutputType::try_pager')]
    mk = [q for q in F.fn_bodies if q.endswith('_make_process_from_less_path')]
    npg = okpg = 0
    if not tp or not mk:
        res.anchor_missing('OutputType::try_pager / _make_process_from_less_path')
    else:
        q = tp[0]
        # SELECT: the pager command is chosen by priority config > DELTA_PAGER > PAGER/BAT_PAGER > `less`. Decided by evaluating
        # try_pager abstractly over the eight combinations of present / absent sources and observing which source's value reaches
        # the command-line splitter (any way of writing the selection - or/unwrap_or_else chain, tuple match, if-let ladder - is fine)
        from .. import e1 as _e1

        class _PagerProbe(_e1.Machine):
            def __init__(self, F_):
                super().__init__(F_)
                self.seen = []

            def call_outcomes(self, path, c, callee, full, argv, g, memo):
                a0 = argv[0] if argv else _e1.T0
                if callee.endswith('shell_words::split') or 'shell_words::split' in full:
                    x = self.deref_all(a0, g) if a0[0] in ('ref', 'vref') else a0
                    self.seen.append(frozenset(_e1.prov_of(x)))
                    return [(_e1.ENUM(_e1.RES, 0, [_e1.T0]), g, memo)]
                if callee.endswith('::clone') and a0[0] == 'vref' and a0[1][0] in ('tuple', 'enum'):
                    return [(a0[1], g, memo)]
                if (callee.endswith(('::from', '::to_string', '::to_owned', '::into', 'String::from'))) and a0[0] == 'str':
                    return [(_e1.TOP({'lit:' + a0[1]}), g, memo)]
                return super().call_outcomes(path, c, callee, full, argv, g, memo)
        mirq = F.bodies[q]['mir']
        names = {n_[0]: n_[1]['l'] for n_ in mirq['names'] if not n_[1]['p'] and n_[1]['l'] <= mirq['arg_count']}     # parameters only
        pagers_idx = None
        local_reach = [x for x in F.reachable_from([q]) if x in F.fn_bodies]
        for fnx in [q] + local_reach:
            for blk in F.bodies[fnx]['mir']['blocks']:
                for st in blk['s']:
                    if st[0] == 'assign':
                        for x in [st[1]] + [y for y in st[2][1:] if isinstance(y, dict)]:
                            pl = x if 'l' in x else (x.get('copy') or x.get('move'))
                            if pl and pl.get('p'):
                                for pr in pl['p']:
                                    if pr[0] == 'field' and pr[3] == 'pagers':
                                        pagers_idx = pr[1]
        env_l, cfg_l = names.get('env'), names.get('pager_from_config')
        cases = []
        undecided = pagers_idx is None or env_l is None or cfg_l is None
        if not undecided:
            for has_cfg in (True, False):
                for has_dp in (True, False):
                    for has_p in (True, False):
                        m = _PagerProbe(F)
                        m.RELEVANT = set(m.RELEVANT) | {q} | {cc for cc in F.fn_bodies if cc.startswith(q + '::{closure')} | {x for x in local_reach if 'output' in x or 'pager' in x.lower()}
                        m.stack.append('<probe>')
                        opt = lambda on, tag: _e1.ENUM(_e1.OPT, 1, [_e1.TOP({tag})]) if on else _e1.ENUM(_e1.OPT, 0, [])
                        pagers = ('tuple', (opt(has_dp, 'DELTA_PAGER'), opt(has_p, 'PAGER')))
                        envv = ('tuple', tuple(pagers if k == pagers_idx else _e1.T0 for k in range(pagers_idx + 1)))
                        argv = []
                        for k in range(1, mirq['arg_count'] + 1):
                            if k == env_l:
                                argv.append(_e1.VREF(envv))
                            elif k == cfg_l:
                                argv.append(opt(has_cfg, 'CONFIG'))
                            else:
                                argv.append(_e1.T0)
                        try:
                            m.call_fn(q, argv, m.g0(), ())
                        except Exception:
                            undecided = True
                        want = 'CONFIG' if has_cfg else ('DELTA_PAGER' if has_dp else ('PAGER' if has_p else 'lit:less'))
                        cases.append(((has_cfg, has_dp, has_p), want, m.seen))
        for (key, want, seen) in cases:
            npg += 1
            flat = set().union(*seen) if seen else set()
            flat = {t for t in flat if t in ('CONFIG', 'DELTA_PAGER', 'PAGER') or t.startswith('lit:')}
            if flat == {want}:
                okpg += 1
            elif not seen or not flat:
                undecided = True
            else:
                res.violate('PAGER', 'fn=%s;select;config=%s,DELTA_PAGER=%s,PAGER=%s' % ((q,) + key),
                            'with (pager option %s, DELTA_PAGER %s, PAGER %s) the pager command comes from %s; the documented priority gives %s' % (
                                'set' if key[0] else 'unset', 'set' if key[1] else 'unset', 'set' if key[2] else 'unset', sorted(flat), want),
                            where=F.bodies[q]['mir']['span']['at'])
        if undecided:
            res.violate('PAGER', 'fn=%s;select;undecided' % q, 'cannot evaluate the pager selection over its source combinations (shape not understood): the priority order is not decided',
                        where=F.bodies[q]['mir']['span']['at'])
        # RAW-CONTROL-CHARS
        q2 = mk[0]
        npg += 1
        raw = [(i, c) for i, c in F.calls(q2) if any(('str', '--RAW-CONTROL-CHARS') in F.operand_literals(q2, a) for a in c['args'])]
        rawblocks = set()
        for b_i, b in enumerate(F.blocks(q2)):
            for st in b['s']:
                if st[0] == 'assign':
                    for o in [x for x in st[2][1:] if isinstance(x, dict)] + [y for x in st[2][1:] if isinstance(x, list) for y in x if isinstance(y, dict)]:
                        if 'const' in o and o['const']['repr'].find('--RAW-CONTROL-CHARS') >= 0:
                            rawblocks.add(b_i)
        userargs = [i for i, c in F.calls(q2) if callee_of(c).endswith('Command::args') and any(
            r[0] == 'param' and r[1] == 2 for a in c['args'][1:] for r in F.trace(q2, a))]
        somes = [b_i for b_i, b in enumerate(F.blocks(q2)) if not b['cleanup'] and any(
            st[0] == 'assign' and st[2][0] == 'agg' and st[2][1][0] == 'adt' and st[2][1][3] == 'Some' and not st[1]['p'] and st[1]['l'] == 0 for st in b['s'])]
        good = bool(rawblocks) and bool(userargs)
        if good:
            # every path to Some(p) passes either the raw-control block or the user-args call
            r = reach(F.cfg(q2), 0, avoid=rawblocks | set(userargs))
            if any(s_ in r for s_ in somes):
                good = False
            # on every edge where the arguments are delta's to choose (args.is_empty() or replace_arguments_to_less) the
            # raw-control block is passed before Some(p) is returned
            ours = []
            for (sb, op, arms, other) in Ru.switches(F, q2):
                roots = F.trace(q2, op)
                if any(r_[0] == 'call' and r_[1].endswith('::is_empty') and any(rr[0] == 'param' and rr[1] == 2 for a in r_[4]['args'] for rr in F.trace(q2, a)) for r_ in roots) \
                        or any(r_[0] == 'param' and r_[1] == 3 and not r_[2] for r_ in roots):
                    tt, ft = Ru.bool_edges(arms, other)
                    neg = Ru.negations(F, q2, op) % 2 == 1
                    ours.append(ft if neg else tt)
            if len(ours) < 2:
                good = False
            for t_ in ours:
                r = reach(F.cfg(q2), t_, avoid=rawblocks)
                if any(s_ in r for s_ in somes):
                    good = False
        if good:
            okpg += 1
        else:
            res.violate('PAGER', 'fn=%s;raw-control-chars' % q2, 'less can be started without --RAW-CONTROL-CHARS although its arguments are delta\'s to choose (colours would show as escape codes)',
                        where=F.bodies[q2]['mir']['span']['at'])
    res.rule('C18.PAGER', npg, 9, 'pager selection obligations: config before env, DELTA_PAGER before PAGER, default less, --RAW-CONTROL-CHARS when args are ours', discharged=okpg)
    res.distinct.update(r['rule'] for r in res.rules)
    return res
