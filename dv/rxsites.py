"""Where regex literals are defined and where their capture groups are read (P1, DESIGN.md C03)."""
from . import rx
from .facts import callee_of, callee_full


def static_regexes(F):
    """{static path (e.g. handlers::blame::BLAME_LINE_REGEX): literal}"""
    out = {}
    for p in F.fn_bodies:
        if '__static_ref_initialize' not in p:
            continue
        for i, c in F.calls(p):
            if callee_of(c).endswith('Regex::new') and c['args']:
                lits = [v[1] for v in F.operand_literals(p, c['args'][0]) if v[0] == 'str']
                if lits:
                    name = p.split(' as std::ops::Deref>')[0].lstrip('<')
                    out[name] = lits[0]
    return out


def local_regexes(F):
    """[(fn, bb, literal or None)] for Regex::new outside lazy statics"""
    out = []
    for p in F.fn_bodies:
        if '__static_ref_initialize' in p:
            continue
        for i, c in F.calls(p):
            if callee_of(c).endswith('Regex::new') and c['args']:
                lits = [v[1] for v in F.operand_literals(p, c['args'][0]) if v[0] == 'str']
                out.append((p, i, lits[0] if lits else None))
    return out


def _regex_of_captures(F, p, op, statics, depth=0):
    """which regex produced the Captures value `op` (in fn p)? returns ('static', name) | ('local', literal) | ('param',) | None"""
    for r in F.trace(p, op):
        if r[0] == 'call' and (r[1].endswith('Regex::captures') or r[1].endswith('Regex::captures_iter') or r[1].endswith('Regex::captures_at')):
            recv = r[4]['args'][0]
            for rr in F.trace(p, recv):
                if rr[0] == 'call' and rr[1].endswith('as std::ops::Deref>::deref'):
                    nm = rr[1].split(' as std::ops::Deref>')[0].lstrip('<')
                    if nm in statics:
                        return ('static', nm)
                if rr[0] == 'call' and rr[1].endswith('Regex::new'):
                    lits = [v[1] for v in F.operand_literals(p, rr[4]['args'][0]) if v[0] == 'str']
                    return ('local', lits[0] if lits else None)
                if rr[0] == 'param':
                    return ('param', rr[1], rr[2])
            return ('unknown',)
        if r[0] == 'param' and F.bodies[p]['kind'] == 'Closure' and depth < 4:
            parent = p.rsplit('::{closure', 1)[0]
            site = F.closure_site(p)
            if r[1] == 1 and site and r[2] and str(r[2][0]).isdigit() and int(r[2][0]) < len(site[2]):
                # a captured variable: the Captures value of the enclosing function
                got = _regex_of_captures(F, site[0], site[2][int(r[2][0])], statics, depth + 1)
                if got:
                    return got
                continue
            if parent in F.fn_bodies:
                # the closure's argument: the payload of the receiver of the combinator the closure is handed to
                # (re.captures(s).and_then(|caps| ..), re.captures_iter(s).map(|caps| ..))
                for i, c in F.calls(parent):
                    if not any(x[0] == 'agg' and x[1][0] == 'closure' and x[1][1] == p for a in c['args'][1:] for x in F.trace(parent, a)):
                        continue
                    for x in F.trace(parent, c['args'][0], deep=True):
                        if x[0] == 'call' and x[1].endswith(('Regex::captures_iter', 'Regex::captures', 'Regex::captures_at')):
                            for rr in F.trace(parent, x[4]['args'][0]):
                                if rr[0] == 'call' and rr[1].endswith('as std::ops::Deref>::deref'):
                                    nm = rr[1].split(' as std::ops::Deref>')[0].lstrip('<')
                                    if nm in statics:
                                        return ('static', nm)
                # closure over captures_iter(...).map(|caps| ...): find the creating function
                for i, c in F.calls(parent):
                    if callee_of(c).endswith(('Regex::captures_iter', 'Regex::captures', 'Regex::captures_at')):
                        recv = c['args'][0]
                        for rr in F.trace(parent, recv):
                            if rr[0] == 'call' and rr[1].endswith('as std::ops::Deref>::deref'):
                                nm = rr[1].split(' as std::ops::Deref>')[0].lstrip('<')
                                if nm in statics:
                                    return ('static', nm)
    return None


def capture_accesses(F):
    """[{fn, bb, index, kind('get'|'index'|'name'), regex, unwrapped(bool), where}]"""
    statics = static_regexes(F)
    out = []
    for p in F.fn_bodies:
        for i, c in F.calls(p):
            r = callee_of(c)
            full = callee_full(c)
            kind = None
            if r.endswith("Captures::<'h>::get") or (r.endswith('::get') and 'regex::Captures' in full):
                kind = 'get'
            elif 'Index<usize>' in r and 'Captures' in r and r.endswith('::index'):
                kind = 'index'
            elif r.endswith("Captures::<'h>::name") or 'Index<&' in r and 'Captures' in r:
                kind = 'name'
            if not kind or len(c['args']) < 2:
                continue
            idx = [v[1] for v in F.operand_literals(p, c['args'][1]) if v[0] in ('int', 'str')]
            rxsrc = _regex_of_captures(F, p, c['args'][0], statics)
            # is the Option unwrapped?
            unwrapped = kind in ('index',)
            if kind in ('get', 'name') and not c['dest']['p'] and c['target'] is not None:
                dl = c['dest']['l']
                # follow moves into unwrap/expect
                holders = {dl}
                for b in F.blocks(p):
                    if b['cleanup']:
                        continue
                    for st in b['s']:
                        if st[0] == 'assign' and st[2][0] == 'use' and not st[1]['p']:
                            q = st[2][1].get('move') or st[2][1].get('copy')
                            if q and q['l'] in holders and not q['p']:
                                holders.add(st[1]['l'])
                    t = b['t']
                    if t[0] == 'call' and callee_of(t[1]).endswith(('Option::<T>::unwrap', 'Option::<T>::expect')):
                        a = t[1]['args'][0]
                        q = a.get('move') or a.get('copy')
                        if q and q['l'] in holders:
                            unwrapped = True
            out.append({'fn': p, 'bb': i, 'index': idx[0] if len(idx) == 1 else None, 'kind': kind, 'regex': rxsrc, 'unwrapped': unwrapped,
                        'where': F.span_of_call(c)})
    return out, statics
