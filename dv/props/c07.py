"""C07 — side-by-side view: correct panels (structural part only; geometry and wrapping are value-level and not decided)."""
from .. import rules as Ru
from ..facts import callee_of, callee_full, reach

EXPLANATION = (
    "Only the clauses of C07 whose truth is in the shape of the code are decided: removed lines appear only on the left, added lines only "
    "on the right, unchanged lines on both sides of the same row, every row is left panel + right panel + newline, paired lines share a "
    "row. ROW: in the alignment loop of the side-by-side painter every iteration appends to the output buffer, on every path and in this "
    "order, one string built from Left-indexed data, one built from Right-indexed data, then '\\n'. SIDES: every MinusPlus index feeding "
    "the first append is Left and every one feeding the second is Right (sections, homolog flags, states, fill mode), and the line index "
    "handed to the left / right panel is component 0 / 1 of the alignment pair. PANEL: a function that paints a panel line and pads it "
    "passes the same side to both. ZERO: an unchanged line is painted once per element of a constant [Left, Right] array and the newline "
    "follows the inner loop. Panel widths, wrap points, truncation, the wrap symbols and column alignment are arithmetic over display "
    "widths of runtime strings and are NOT decided.")

MPI = 'minusplus::MinusPlusIndex'
THRU = ('::deref', '::deref_mut', '::as_ref', '::as_mut', '::borrow', '::as_slice', '::clone', '::unwrap', '::into', '::from')


def _variant(F, p, o):
    """variant name if operand is a MinusPlusIndex constant / aggregate"""
    out = set()
    for r in F.trace(p, o):
        if r[0] == 'agg' and r[1][0] == 'adt' and r[1][1] == MPI:
            out.add(r[1][3])
        elif r[0] == 'const' and len(r) > 3:
            v = F.const_value(r[3], p)
            if v and v[0] == 'enum' and v[1] == MPI:
                out.add(v[2])
            elif v and v[0] == 'promoted':
                for x in F.promoted_value(v[1], p):
                    if x[0] == 'enum' and x[1] == MPI:
                        out.add(x[2])
    return out


def sides_of(F, p, o, depth=0, seen=None):
    """sides (Minus = Left, Plus = Right) of the MinusPlus containers an operand is taken from, looking through borrows and Vec indexing"""
    seen = seen if seen is not None else set()
    out = set()
    if depth > 6:
        return out
    for r in F.trace(p, o):
        if r[0] != 'call' or (r[2], r[1]) in seen:
            continue
        seen.add((r[2], r[1]))
        full = callee_full(r[4])
        if r[1].endswith(('::index', '::index_mut')) and 'MinusPlus<' in full.split(' as ')[0]:
            out |= _variant(F, p, r[4]['args'][1])
        elif r[1].endswith(('::index', '::index_mut')) or r[1].endswith(THRU):
            out |= sides_of(F, p, r[4]['args'][0], depth + 1, seen)
    return out


def tuple_component(F, p, o):
    """{0, 1}: which component of a 2-tuple (through Option downcasts) the operand is copied from"""
    out = set()
    pl = o.get('move') or o.get('copy')
    if not pl or pl['p']:
        return out
    for (dbb, kind, payload) in F.local_defs(p).get(pl['l'], []):
        if kind == 'assign' and payload[0] == 'use':
            q = payload[1].get('copy') or payload[1].get('move')
            if q:
                tf = [pr for pr in q['p'] if pr[0] == 'field' and pr[2] == '(tuple)']
                if tf:
                    out.add(tf[-1][1])
                elif not q['p']:
                    out |= tuple_component(F, p, payload[1])
    return out


def run(F, tier, res):
    res.assumptions += ['MinusPlus<T> is a two-slot container indexed by Left/Right (minusplus.rs); Left = minus = removed, Right = plus = added']
    res.not_decided += ['panel widths, available text width, wrap points, truncation and its mark, wrap symbols, that joining wrapped fragments gives back the line, '
                        'that no row is wider than the configured width, column alignment of the right panel (all value-level arithmetic over display widths)',
                        'that the alignment pairs themselves are the right ones (C06 territory)']
    P = [q for q in F.fn_bodies if q.endswith('::paint_minus_and_plus_lines_side_by_side')]
    Z = [q for q in F.fn_bodies if q.endswith('::paint_zero_lines_side_by_side')]
    if not P or not Z:
        res.anchor_missing('side_by_side::{paint_minus_and_plus_lines_side_by_side, paint_zero_lines_side_by_side}')
        return res
    P, Z = P[0], Z[0]
    mir = F.bodies[P]['mir']
    ob = next((n[1]['l'] for n in mir['names'] if n[0] == 'output_buffer' and not n[1]['p']), None)
    S = F.cfg(P)
    heads = [i for i, c in F.calls(P) if callee_of(c).endswith('Iterator>::next') and '(std::option::Option<usize>, std::option::Option<usize>)' in callee_full(c)]
    n = ok = 0
    if len(heads) != 1 or ob is None:
        res.anchor_missing('alignment loop / output_buffer parameter of the side-by-side painter')
        return res
    h = heads[0]
    body = {b for b in reach(S, S.get(h, [])) if h in reach(S, S.get(b, []))}
    appends = []
    for i, c in F.calls(P):
        if i in body and callee_of(c).endswith(('String::push_str', 'String::push')) and any(r[0] == 'param' and r[1] == ob for r in F.trace(P, c['args'][0])):
            appends.append((i, c))
    # order the appends by dominance
    dom = F.dominators(P)
    appends.sort(key=lambda ic: len(dom.get(ic[0], ())))
    # ---- ROW
    n += 1
    row_ok = len(appends) == 3 and callee_of(appends[2][1]).endswith('String::push') and ('char', '\n') in F.operand_literals(P, appends[2][1]['args'][1])
    if row_ok:
        a1, a2, a3 = (x[0] for x in appends)
        entry = [b for b in S.get(h, []) if b in body]
        # every path of one iteration passes a1, then a2, then a3
        for (start, via) in ((entry, a1), (S.get(a1, []), a2), (S.get(a2, []), a3)):
            r = reach(S, start, avoid={via})
            if h in r:
                row_ok = False
        # and no path returns to a1 / a2 without passing the head
        if a1 in reach(S, S.get(a1, []), avoid={h}) or a2 in reach(S, S.get(a2, []), avoid={h}):
            row_ok = False
    if row_ok:
        ok += 1
    else:
        res.violate('ROW', 'fn=%s' % P, 'an iteration of the side-by-side alignment loop does not append exactly left panel, right panel, newline in this order on every path '
                    '(%d appends to the output buffer found)' % len(appends), where=F.bodies[P]['mir']['span']['at'])
    res.rule('C07.ROW', n, 1, 'alignment loop: left panel, right panel, newline appended once each, in order, on every path', discharged=ok)
    # ---- SIDES
    ns = oks = 0
    if len(appends) >= 2:
        for want, wname, comp, (ai, ac) in (('Minus', 'left', 0, appends[0]), ('Plus', 'right', 1, appends[1])):
            # the call producing the appended string
            prod = [r for r in F.trace(P, ac['args'][1]) if r[0] == 'call']
            through = [r for r in prod if r[1].endswith(THRU)]
            while through and not [r for r in prod if not r[1].endswith(THRU)]:
                prod = [r2 for r in through for r2 in F.trace(P, r[4]['args'][0]) if r2[0] == 'call']
                through = [r for r in prod if r[1].endswith(THRU)]
            painters = [r for r in prod if not r[1].endswith(THRU)]
            if not painters:
                ns += 1
                res.violate('SIDES', 'fn=%s;append=%s;no-painter' % (P, want), 'cannot find the call that produces the %s panel string' % wname, where=F.span_of_call(ac))
                continue
            for r in painters:
                call = r[4]
                for k, a in enumerate(call['args']):
                    sd = sides_of(F, P, a) | _variant(F, P, a)
                    if sd:
                        ns += 1
                        if sd == {want}:
                            oks += 1
                        else:
                            res.violate('SIDES', 'fn=%s;panel=%s;arg=%d' % (P, wname, k), 'the %s panel of a side-by-side row is painted from %s-side data (argument %d of %s): '
                                        'removed lines must appear only on the left and added lines only on the right' % (wname, '/'.join(sorted(sd)), k, r[1].split('::')[-1]),
                                        where=F.span_of_call(call))
                # the line index: component 0 / 1 of the alignment pair
                comps = set()
                for a in call['args']:
                    ty = None
                    pl = a.get('move') or a.get('copy')
                    if pl and not pl['p']:
                        ty = mir['locals'][pl['l']]
                    if ty == 'std::option::Option<usize>':
                        comps |= tuple_component(F, P, a)
                ns += 1
                if comps == {comp}:
                    oks += 1
                else:
                    res.violate('SIDES', 'fn=%s;panel=%s;index' % (P, wname), 'the line index handed to the %s panel is component %s of the alignment pair, expected %d' % (
                        wname, sorted(comps) or '?', comp), where=F.span_of_call(call))
    res.rule('C07.SIDES', ns, 8, 'MinusPlus indices and alignment components feeding the left / right panel of a row', discharged=oks)
    # ---- PANEL: paint and pad with the same side
    np_ = okp = 0
    padders = [q for q in F.fn_bodies if q.endswith('::pad_panel_line_to_width')]
    for q in sorted(F.fn_bodies):
        pads = [(i, c) for i, c in F.calls(q) if callee_of(c) in padders]
        if not pads:
            continue
        paints = [(i, c) for i, c in F.calls(q) if callee_of(c).endswith(('::paint_minus_or_plus_panel_line', 'Painter::<\'p>::paint_line', '::paint_line'))]
        for (i, c) in pads:
            np_ += 1
            pside = set()
            psig = set()
            for a in c['args']:
                pl = a.get('move') or a.get('copy')
                ty = F.bodies[q]['mir']['locals'][pl['l']] if pl and not pl['p'] else (a.get('const', {}).get('ty') if 'const' in a else None)
                if ty and MPI in ty:
                    pside |= _variant(F, q, a)
                    psig |= {(r[0], r[1]) for r in F.trace(q, a) if r[0] == 'param'}
            good = bool(paints)
            for (j, c2) in paints:
                s2 = set()
                sig2 = set()
                for a in c2['args']:
                    pl = a.get('move') or a.get('copy')
                    ty = F.bodies[q]['mir']['locals'][pl['l']] if pl and not pl['p'] else (a.get('const', {}).get('ty') if 'const' in a else None)
                    if ty and MPI in ty:
                        s2 |= _variant(F, q, a)
                        sig2 |= {(r[0], r[1]) for r in F.trace(q, a) if r[0] == 'param'}
                if (s2 or pside) and s2 != pside:
                    good = False
                if (sig2 or psig) and not (s2 or pside) and sig2 != psig:
                    good = False
            if good:
                okp += 1
            else:
                res.violate('PANEL', 'fn=%s' % q, 'a panel line is painted for one side and padded / filled for another (or no paint call accompanies the padding)', where=F.span_of_call(c))
    res.rule('C07.PANEL', np_, 2, 'functions that paint and pad a panel line: same side for both', discharged=okp)
    # ---- ZERO: both sides, Left then Right, newline after the inner loop
    nz = okz = 0
    nz += 1
    order = []
    for pm in F.bodies[Z].get('promoted', []):
        for blk in pm['blocks']:
            for st in blk['s']:
                if st[0] == 'assign' and st[2][0] == 'agg' and st[2][1][0] == 'array':
                    elems = []
                    for o in st[2][2]:
                        if 'const' in o:
                            v = F.const_value(o['const'], Z)
                            if v and v[0] == 'enum' and v[1] == MPI:
                                elems.append(v[2])
                        else:
                            # aggregate built just before
                            pl = o.get('move') or o.get('copy')
                            for st2 in blk['s']:
                                if st2[0] == 'assign' and pl and st2[1]['l'] == pl['l'] and st2[2][0] == 'agg' and st2[2][1][0] == 'adt' and st2[2][1][1] == MPI:
                                    elems.append(st2[2][1][3])
                    if elems:
                        order = elems
    if not order:
        for blk in F.blocks(Z):
            for st in blk['s']:
                if st[0] == 'assign' and st[2][0] == 'agg' and st[2][1][0] == 'array':
                    elems = []
                    for o in st[2][2]:
                        elems += sorted(_variant(F, Z, o))
                    if elems:
                        order = elems
    if order == ['Minus', 'Plus']:
        okz += 1
    else:
        res.violate('ZERO', 'fn=%s;sides' % Z, 'an unchanged line is not painted once for Left and once for Right in this order (found %s)' % order, where=F.bodies[Z]['mir']['span']['at'])
    # newline pushed in the outer loop after the inner loop
    nz += 1
    SZ = F.cfg(Z)
    zob = next((n_[1]['l'] for n_ in F.bodies[Z]['mir']['names'] if n_[0] == 'output_buffer' and not n_[1]['p']), None)
    nl = [i for i, c in F.calls(Z) if callee_of(c).endswith('String::push') and ('char', '\n') in F.operand_literals(Z, c['args'][1])]
    ps = [i for i, c in F.calls(Z) if callee_of(c).endswith('String::push_str') and zob is not None and any(r[0] == 'param' and r[1] == zob for r in F.trace(Z, c['args'][0]))]
    zheads = [i for i, c in F.calls(Z) if callee_of(c).endswith('Iterator>::next')]
    good = len(nl) == 1 and len(ps) == 1
    if good:
        inner = [hh for hh in zheads if ps[0] in reach(SZ, SZ.get(hh, [])) and hh in reach(SZ, SZ.get(ps[0], []), avoid=set(nl))]
        outer = [hh for hh in zheads if nl[0] in reach(SZ, SZ.get(hh, [])) and hh in reach(SZ, SZ.get(nl[0], []))]
        # the newline is not inside the inner (per-side) loop: from the newline one cannot come back to the panel append without passing an outer head
        good = bool(inner) and bool(outer) and ps[0] not in reach(SZ, SZ.get(nl[0], []), avoid=set(outer))
    if good:
        okz += 1
    else:
        res.violate('ZERO', 'fn=%s;row' % Z, 'the two panels of an unchanged line are not followed by exactly one newline per row', where=F.bodies[Z]['mir']['span']['at'])
    res.rule('C07.ZERO', nz, 2, 'unchanged lines: both sides in order Left, Right; one newline per row', discharged=okz)
    # ---------- MAX-END: the gutter is as wide as the largest line number of the hunk, i.e. the largest start + length over the coordinate
    # pairs. A max() taken directly over the (start, length) tuples compares them lexicographically - it picks the pair that starts last,
    # not the one that ends last - and the gutter comes out a digit too narrow: the panel text is then laid out for a row that is too wide
    nmx = okmx = 0
    for q in sorted(F.fn_bodies):
        mir = F.bodies[q]['mir']
        if not any(mir['locals'][i].replace(' ', '') in ('&[(usize,usize)]', '&std::vec::Vec<(usize,usize)>') for i in range(1, mir['arg_count'] + 1)):
            continue
        for i, c in F.calls(q):
            if not callee_of(c).endswith(('Iterator::max', 'Iterator::min', 'Iterator::max_by_key', 'Iterator::min_by_key')):
                continue
            full = callee_full(c)
            head = full.split(' as std::iter::Iterator>')[0]
            nmx += 1
            over_pairs = '(usize, usize)' in head and 'Map<' not in head and callee_of(c).endswith(('::max', '::min'))
            if over_pairs:
                res.violate('MAX-END', 'fn=%s' % q, 'the extreme of the hunk coordinates is taken over the (start, length) pairs themselves (lexicographic order) rather than over '
                            'start + length: the gutter width is computed from the wrong pair', where=F.span_of_call(c))
            else:
                okmx += 1
    res.rule('C07.MAX-END', nmx, 0, 'max()/min() calls in functions taking the coordinate list: none compares (start, length) tuples as such', discharged=okmx)
    res.distinct.update(r['rule'] for r in res.rules)
    return res
