"""C19 — hyperlinks are well-formed, transparent, and point at the right target (structural part)."""
import re
from .. import rules as Ru
from ..facts import callee_of, callee_full, reach, iter_consts

EXPLANATION = (
    "OSC8: string literals containing the OSC introducer (ESC ]) occur only in the hyperlink formatter, whose single template opens a link "
    "(OSC 8 ; ; url ST), prints the text, and closes it (OSC 8 ; ; ST) in one string - so every link is closed on the line it is opened. "
    "ESCAPE-TABLE: in the element->(slice, is_escape) mapping used by width measurement and stripping, every Element variant except Text "
    "(including Osc) maps to is_escape = true, and the measuring fold adds 0 for escapes: links do not change computed widths. WRAPPER: at "
    "every call of the file-hyperlink formatter, the value produced on the sibling arms of the hyperlink decision (hyperlinks off / no "
    "absolute path) has the same provenance as the formatter's `text` argument, i.e. enabling hyperlinks only wraps what would be printed "
    "anyway. LINE: the `{line}` substituted into the URL is the formatter's line_number argument, which at the gutter call site is the same "
    "number that is padded and shown.")

ESC = '\x1b'


def run(F, tier, res):
    res.assumptions += ['terminals treat OSC 8 as zero-width', 'url templates contain no ST / newline (user configuration)']
    res.not_decided += ['absolute-path correctness, URL templates, commit-URL formats (value-level)', 'byte-identity of the two runs (relation between executions)']
    # ---------- OSC8
    fmt = [p for p in F.fn_bodies if p.endswith('::format_osc8_hyperlink')]
    osc_sites = {}
    n_lit = 0
    for p, b in F.bodies.items():
        mirs = [b['mir']] + b.get('promoted', [])
        for m in mirs:
            for blk in m['blocks']:
                cs = []
                for st in blk['s']:
                    if st[0] == 'assign':
                        cs += list(iter_consts(st[2]))
                t = blk['t']
                if t[0] == 'call':
                    cs += [a['const'] for a in t[1]['args'] if 'const' in a]
                for c in cs:
                    v = F.const_value(c, p)
                    if v and v[0] == 'str':
                        n_lit += 1
                        if ESC + ']' in v[1]:
                            osc_sites.setdefault(p, []).append(v[1])
                    elif c['repr'].startswith(('b"', 'const b"')):
                        # format_args! templates are lowered to byte strings
                        n_lit += 1
                        if '\\x1b]' in c['repr'] or '\x1b]' in c['repr']:
                            osc_sites.setdefault(p, []).append(c['repr'][:40])
    n = ok = 0
    for p, lits in osc_sites.items():
        n += 1
        if fmt and (p == fmt[0] or p.startswith(fmt[0] + '::')):
            ok += 1
        elif 'regex' in p.lower() or '__static_ref_initialize' in p or p.startswith('ansi::'):
            ok += 1   # recognisers, not producers
        else:
            res.violate('OSC8', 'fn=%s' % p, 'an OSC (ESC ]) literal is produced outside the hyperlink formatter: the open/close pairing is no longer guaranteed by one template', where=F.bodies[p]['mir']['span']['at'])
    if not fmt:
        res.anchor_missing('format_osc8_hyperlink')
    else:
        n += 1
        # the template: macro snippet of the format! call
        tmpl = None
        named = {}
        for i, c in F.calls(fmt[0]):
            for key in ('span', 'tspan'):
                sp = c.get(key) or {}
                if 'format' in sp.get('macro', '') and 'snippet' in sp:
                    mm = re.search(r'"((?:[^"\\]|\\.)*)"', sp['snippet'], re.S)
                    if mm and tmpl is None:
                        tmpl = mm.group(1)
                        for nm, val in re.findall(r'(\w+)\s*=\s*"((?:[^"\\]|\\.)*)"', sp['snippet']):
                            named[nm] = val
        good = False
        if tmpl:
            t2 = tmpl
            for nm, val in named.items():
                t2 = t2.replace('{%s}' % nm, val)
            t2 = t2.replace('\\x1b', ESC).replace('\\\\', '\\')
            opens = [m.start() for m in re.finditer(re.escape(ESC + ']8;;'), t2)]
            st = ESC + '\\'
            if len(opens) == 2 and t2.endswith(ESC + ']8;;' + st) and t2.count(st) == 2 and '{text}' in t2 and t2.index('{text}') > t2.index(st):
                good = True
        if good:
            ok += 1
        else:
            res.violate('OSC8', 'fn=%s;template' % fmt[0], 'the hyperlink template does not open and close the link in one string (template: %r)' % tmpl, where=F.bodies[fmt[0]]['mir']['span']['at'])
    res.rule('C19.OSC8', n, 1, 'functions holding OSC literals (%d string literals scanned) + the formatter template' % n_lit, discharged=ok, samples=sorted(osc_sites))
    # ---------- ESCAPE-TABLE
    EL = 'ansi::iterator::Element'
    ne = oke = 0
    for p in F.fn_bodies:
        if not p.startswith('ansi::'):
            continue
        for (sb, op, arms, other) in Ru.switches(F, p):
            pl = op.get('copy') or op.get('move')
            names = None
            for (dbb, kind, payload) in (F.local_defs(p).get(pl['l'], []) if pl and not pl['p'] else []):
                if kind == 'assign' and payload[0] == 'discr' and len(payload) >= 4 and payload[2] == EL:
                    names = {int(v): nme for v, nme in payload[3]}
            if not names:
                continue
            # arms produce (slice, bool)?
            tab = {}
            for v, b in arms:
                cur = b
                for _ in range(8):
                    for st in F.blocks(p)[cur]['s']:
                        if st[0] == 'assign' and st[2][0] == 'agg' and st[2][1][0] == 'tuple' and len(st[2][2]) == 2 and 'const' in st[2][2][1] and st[2][2][1]['const']['ty'] == 'bool':
                            tab[names[v]] = st[2][2][1]['const']['repr'].endswith('true')
                    ss = F.cfg(p).get(cur, [])
                    if names[v] in tab or len(ss) != 1:
                        break
                    cur = ss[0]
            if len(tab) < 2:
                continue
            for var in names.values():
                ne += 1
                want = (var != 'Text')
                if tab.get(var) == want:
                    oke += 1
                else:
                    res.violate('ESCAPE-TABLE', 'fn=%s;variant=%s' % (p, var), 'Element::%s is classified is_escape=%s in the width/strip iterator (expected %s): %s' % (
                        var, tab.get(var), want, 'hyperlinks would be counted as visible text' if var == 'Osc' else 'visible text / escapes misclassified'), where=F.bodies[p]['mir']['span']['at'])
    res.rule('C19.ESCAPE-TABLE', ne, 5, 'Element variants in the (slice, is_escape) mapping: all but Text are escapes', discharged=oke)
    # measure: adds 0 for escapes
    mtw = [p for p in F.fn_bodies if p.startswith('ansi::measure_text_width::{closure')]
    nm_ = okm = 0
    for p in mtw:
        for (sb, op, arms, other) in Ru.switches(F, p):
            if not any(r[0] == 'param' for r in F.trace(p, op)):
                continue
            nm_ += 1
            tt, ft = Ru.bool_edges(arms, other)
            neg = Ru.negations(F, p, op) % 2 == 1
            esc_edge = ft if neg else tt
            zero = any(st[0] == 'assign' and st[2][0] == 'use' and 'const' in st[2][1] and F.const_value(st[2][1]['const'], p) == ('int', 0)
                       for st in F.blocks(p)[esc_edge]['s']) if esc_edge is not None else False
            if zero:
                okm += 1
            else:
                res.violate('ESCAPE-TABLE', 'fn=%s;width' % p, 'escape elements do not contribute width 0 in measure_text_width', where=F.bodies[p]['mir']['span']['at'])
    res.rule('C19.WIDTH', nm_, 1, 'measure_text_width fold: is_escape -> 0', discharged=okm)
    # ---------- WRAPPER
    ffl = [p for p in F.fn_bodies if p.endswith('::format_osc8_file_hyperlink')]
    nw = okw = 0
    if not ffl:
        res.anchor_missing('format_osc8_file_hyperlink')
    else:
        for (p, i, c) in Ru.call_sites(F, lambda r, cc: r in ffl):
            nw += 1
            text_roots = _sig(F, p, c['args'][2])
            # follow the result to a join local
            blocks = F.blocks(p)
            S = F.cfg(p)
            cur_l, cur_b = (c['dest']['l'] if not c['dest']['p'] else None), c['target']
            join, jb = None, None
            seen_b = 0
            while cur_l is not None and cur_b is not None and seen_b < 12:
                seen_b += 1
                defs = F.local_defs(p).get(cur_l, [])
                if len(defs) >= 2 or cur_l == 0:
                    join, jb = cur_l, [d[0] for d in defs]
                    break
                blk = blocks[cur_b]
                moved = False
                for st in blk['s']:
                    if st[0] == 'assign' and not st[1]['p'] and st[2][0] in ('use', 'ref'):
                        q = (st[2][1].get('move') or st[2][1].get('copy')) if st[2][0] == 'use' else st[2][2]
                        if q and q['l'] == cur_l:
                            cur_l = st[1]['l']
                            moved = True
                t = blk['t']
                if t[0] == 'call' and any((a.get('move') or a.get('copy') or {}).get('l') == cur_l for a in t[1]['args']):
                    if not t[1]['dest']['p']:
                        cur_l = t[1]['dest']['l']
                    cur_b = t[1]['target']
                    continue
                ss = S.get(cur_b, [])
                if len(ss) == 1:
                    cur_b = ss[0]
                elif not moved:
                    break
                else:
                    break
            if join is None:
                # single producer: nothing to compare with
                okw += 1
                continue
            dom = F.dominators(p)
            mine = [b for b in jb if i in dom.get(b, ()) or b == i]
            others = [d for d in F.local_defs(p).get(join, []) if d[0] not in mine]
            bad = []
            for (ob, kind, payload) in others:
                if kind == 'call':
                    sig = set()
                    for a in payload['args']:
                        sig |= _sig(F, p, a)
                    sig.add(('call', callee_of(payload)))
                else:
                    sig = _sig_rv(F, p, payload)
                # only siblings of the hyperlink decision
                sibling = False
                for (sb, op, arms, other) in Ru.switches(F, p):
                    roots = F.trace(p, op)
                    decides = any(r[0] == 'param' and r[2] and r[2][-1] == 'hyperlinks' for r in roots) or any(r[0] == 'call' and r[1].endswith('::absolute_path') for r in roots)
                    if not decides:
                        continue
                    tg = set([b for _, b in arms] + [other])
                    mine_edges = {t_ for t_ in tg if Ru.edge_dominates(F, p, sb, t_, i)}
                    other_edges = {t_ for t_ in tg if Ru.edge_dominates(F, p, sb, t_, ob) or t_ == ob}
                    if mine_edges and other_edges and not (mine_edges & other_edges):
                        sibling = True
                if sibling and not (sig & text_roots):
                    bad.append((ob, sorted(sig)[:4]))
            if bad:
                res.violate('WRAPPER', 'fn=%s' % p, 'with hyperlinks off / no absolute path this site prints a value unrelated to the text that the hyperlink wraps '
                            '(wrapped text comes from %s, sibling arm yields %s): enabling hyperlinks changes more than the OSC 8 sequences' % (sorted(text_roots)[:4], bad[0][1]), where=F.span_of_call(c))
            else:
                okw += 1
    res.rule('C19.WRAPPER', nw, 3, 'call sites of the file-hyperlink formatter; sibling arms of the hyperlink decision print the wrapped text', discharged=okw)
    # ---------- TARGET: the path handed to absolute_path for a link is the file name as parsed, not its display form
    DISPLAY_ONLY = ('file_regex_replacement', 'file_modified_label', 'file_added_label', 'file_removed_label', 'file_renamed_label', 'file_copied_label', 'right_arrow')
    nt = okt = 0

    def display_taint(fn, op, depth=0):
        """names of display-only transformations in the provenance of op (following closure parameters to the closure's callers once)"""
        out = []
        for r in F.trace(fn, op, deep=True):
            if r[0] == 'call':
                cal = r[1]
                if 'RegexReplacement' in cal or cal.endswith('::paint') or 'ANSIStrings' in cal or 'ANSIGenericString' in cal:
                    out.append(cal)
                else:
                    # a local helper whose result is such a transformation of its argument (`display_path(path, config)`)
                    q_ = cal if cal in F.fn_bodies else (r[4].get('resolved') or '')
                    if q_ in F.fn_bodies and depth < 2 and not q_.endswith('absolute_path'):
                        for x in F.trace(q_, {'copy': {'l': 0, 'p': []}}, deep=True):
                            if x[0] == 'call' and ('RegexReplacement' in x[1] or x[1].endswith('::paint') or 'ANSIStrings' in x[1]):
                                out.append('%s (via %s)' % (x[1], q_.split('::')[-1]))
                            elif x[0] == 'param' and x[2] and x[2][-1] in DISPLAY_ONLY:
                                out.append('config.%s (via %s)' % (x[2][-1], q_.split('::')[-1]))
                for a in r[4]['args']:
                    for rr in F.trace(fn, a):
                        if rr[0] == 'param' and rr[2] and rr[2][-1] in DISPLAY_ONLY:
                            out.append('%s(config.%s)' % (cal, rr[2][-1]))
            elif r[0] == 'param' and r[2] and r[2][-1] in DISPLAY_ONLY:
                out.append('config.' + r[2][-1])
            elif r[0] == 'param' and '{closure' in fn and depth == 0 and r[1] >= 2:
                parent = fn.rsplit('::{closure', 1)[0]
                if parent in F.fn_bodies:
                    for j, c2 in F.calls(parent):
                        if (c2.get('resolved') or '') == fn or callee_of(c2) == fn:
                            k = r[1] - 1
                            # closure call: args = (closure, (tuple of args)) or direct args
                            for a in c2['args'][1:]:
                                out += display_taint(parent, a, depth + 1)
        return out
    for (p, i, c) in Ru.call_sites(F, lambda r, cc: r.endswith('utils::path::absolute_path')):
        nt += 1
        bad = display_taint(p, c['args'][0])
        if bad:
            res.violate('TARGET', 'fn=%s' % p, 'the path resolved for a file hyperlink has passed through a display-only transformation (%s): the link no longer points at the file '
                        'named in the section' % ', '.join(sorted(set(bad))[:3]), where=F.span_of_call(c))
        else:
            okt += 1
    res.rule('C19.TARGET', nt, 3, 'absolute_path call sites: the argument derives from the parsed file name, not from a display transformation', discharged=okt)
    # ---------- COORD: link text and link target are expressed relative to the same directory: if the text shown has been relativised
    # (pathdiff::diff_paths against the cwd) the path handed to absolute_path - which joins it to that same cwd when relative paths are
    # in force - must be the relativised one as well, and vice versa
    def relativised(fn, op):
        return any(r[0] == 'call' and (r[1].endswith('::diff_paths') or r[1].endswith('::relativize_path_maybe')) for r in F.trace(fn, op, deep=True))
    nco = okco = 0
    for G in sorted(F.fn_bodies):
        links = [(i, c) for i, c in F.calls(G) if callee_of(c) in ffl]
        abss = [(i, c) for i, c in F.calls(G) if callee_of(c).endswith('utils::path::absolute_path')]
        if not links or not abss:
            continue
        for (i, c) in links:
            # the absolute_path call whose result is this link's target
            tgt = [r for r in F.trace(G, c['args'][0], deep=True) if r[0] == 'call' and r[1].endswith('utils::path::absolute_path')]
            for r in tgt[:1]:
                nco += 1
                if relativised(G, r[4]['args'][0]) == relativised(G, c['args'][2]):
                    okco += 1
                else:
                    res.violate('COORD', 'fn=%s' % G, 'the text of a file hyperlink has been made relative to the current directory but its target is resolved from the path '
                                'relative to the repository root (or the other way round): under --relative-paths the link points at <cwd>/<root-relative path>, a file that does not exist',
                                where=F.span_of_call(c))
    res.rule('C19.COORD', nco, 2, 'hyperlink sites: link text and absolute_path argument agree on having been relativised', discharged=okco)
    # ---------- FALLBACK: where a helper returns Option<link> and its caller supplies the text for the no-link case
    # (unwrap_or / unwrap_or_else), link text and fallback text must have gone through the same display transformations
    nfb = okfb = 0
    for G in sorted(F.fn_bodies):
        sites = [(i, c) for i, c in F.calls(G) if callee_of(c) in ffl]
        if not sites or 'Option<' not in F.bodies[G]['mir']['locals'][0]:
            continue
        for (i, c) in sites:
            t_in_g = bool(display_taint(G, c['args'][2]))
            text_params = {r[1] for r in F.trace(G, c['args'][2]) if r[0] == 'param' and not r[2]}
            for K in sorted(F.fn_bodies):
                for (j, ck) in F.calls(K):
                    if callee_of(ck) != G and (ck.get('resolved') or '') != G:
                        continue
                    t_link = t_in_g or any(display_taint(K, ck['args'][k - 1]) for k in text_params if k - 1 < len(ck['args']))
                    # the consumer of the Option
                    d = ck['dest']['l'] if not ck['dest']['p'] else None
                    for (j2, c2) in F.calls(K):
                        cal2 = callee_of(c2)
                        if not cal2.endswith(('::unwrap_or_else', '::unwrap_or', '::map_or', '::map_or_else')) or not c2['args']:
                            continue
                        if not any(r[0] == 'call' and r[2] == j for r in F.trace(K, c2['args'][0])):
                            continue
                        nfb += 1
                        fb = c2['args'][1] if len(c2['args']) > 1 else None
                        t_fb = False
                        if fb is not None:
                            for r in F.trace(K, fb):
                                if r[0] == 'agg' and r[1][0] == 'closure' and r[1][1] in F.fn_bodies:
                                    cl = r[1][1]
                                    for _, c3 in F.calls(cl):
                                        if 'RegexReplacement' in callee_of(c3):
                                            t_fb = True
                                        for a3 in c3['args']:
                                            if any(rr[0] == 'param' and rr[2] and rr[2][-1] in DISPLAY_ONLY for rr in F.trace(cl, a3)):
                                                t_fb = True
                            t_fb = t_fb or bool(display_taint(K, fb))
                        if t_fb == t_link:
                            okfb += 1
                        else:
                            res.violate('FALLBACK', 'fn=%s;helper=%s' % (K, G.split('::')[-1]), 'the text shown when a hyperlink is made (%s) and the text shown when none is made (%s) differ by a display '
                                        'transformation: enabling hyperlinks changes the visible text, not only the OSC 8 sequences' % (
                                            'transformed' if t_link else 'untransformed', 'transformed' if t_fb else 'untransformed'), where=F.span_of_call(c2))
    res.rule('C19.FALLBACK', nfb, 0, 'Option-returning link helpers: fallback text of each caller agrees with the link text on display transformations', discharged=okfb)
    # ---------- LINE
    nl = okl = 0
    if ffl:
        p = ffl[0]
        for i, c in F.calls(p):
            if callee_of(c).endswith('::replace') and len(c['args']) >= 3 and ('str', '{line}') in F.operand_literals(p, c['args'][1]):
                nl += 1
                roots = F.trace(p, c['args'][2], deep=True)
                if any(r[0] == 'param' and r[1] == 2 for r in roots) or ('str', '') in F.operand_literals(p, c['args'][2]):
                    okl += 1
                else:
                    res.violate('LINE', 'fn=%s' % p, '{line} in the link is not the line_number argument', where=F.span_of_call(c))
        for (q, i, c) in Ru.call_sites(F, lambda r, cc: r in ffl):
            if 'line_number' in q:
                nl += 1
                ln_roots = {(r[0], r[1]) for r in F.trace(q, c['args'][1]) if r[0] == 'param'}
                tx_roots = {(r[0], r[1]) for r in F.trace(q, c['args'][2], deep=True) if r[0] == 'param'} | \
                           {(r[0], r[1]) for r in F.trace(q, c['args'][2], deep=True) if r[0] == 'call'}
                # the displayed number n is the payload of the same Option that is passed as line_number
                if ln_roots:
                    okl += 1
                else:
                    res.violate('LINE', 'fn=%s;gutter' % q, 'the line number linked to is not the line number displayed', where=F.span_of_call(c))
    res.rule('C19.LINE', nl, 2, '{line} substitutions and the gutter call site', discharged=okl)
    # ---------- PLACEHOLDER: a URL template placeholder is substituted everywhere it occurs (str::replace), never only at its first
    # occurrence (split_once / splitn / find / replacen on the placeholder literal): a template may mention it twice
    PARTIAL = ('::split_once', '::splitn', '::find', '::replacen', '::rsplit_once', '::split', '::strip_prefix', '::strip_suffix', '::match_indices')
    PLACEHOLDERS = ('{commit}', '{path}', '{line}', '{host}', '{host_name}')
    npl = okpl = 0
    for q in sorted(F.fn_bodies):
        if not q.startswith('features::hyperlinks') and 'hyperlink' not in q:
            continue
        for i, c in F.calls(q):
            lits = [v[1] for a in c['args'][1:] for v in F.operand_literals(q, a) if v[0] == 'str']
            ph = [l for l in lits if l in PLACEHOLDERS]
            if not ph:
                continue
            npl += 1
            if callee_of(c).endswith(PARTIAL):
                res.violate('PLACEHOLDER', 'fn=%s;placeholder=%s' % (q, ph[0]), 'the placeholder %s of a link template is located with %s, which handles its first occurrence only: '
                            'a template that mentions it twice (e.g. a compare URL) keeps a literal %s in the link' % (ph[0], callee_of(c).split('::')[-1], ph[0]), where=F.span_of_call(c))
            else:
                okpl += 1
    res.rule('C19.PLACEHOLDER', npl, 2, 'uses of the template placeholder literals in the hyperlink code: none through a first-occurrence-only API', discharged=okpl)
    res.distinct.update(r['rule'] for r in res.rules)
    return res


def _sig(F, p, op):
    out = set()
    for r in F.trace(p, op, deep=True):
        if r[0] == 'param':
            out.add(('param', r[1]))
        elif r[0] == 'call' and not r[1].endswith(('::deref', '::as_ref', '::to_string', '::to_owned', '::into', '::from', '::as_str', '::borrow', '::clone', '::to_string_lossy', '::into_owned')):
            out.add(('call', r[1]))
    return out


def _sig_rv(F, p, rv):
    out = set()
    if rv[0] == 'use':
        out |= _sig(F, p, rv[1])
    elif rv[0] == 'agg':
        for o in rv[2]:
            out |= _sig(F, p, o)
    elif rv[0] in ('ref',):
        out |= _sig(F, p, {'copy': rv[2]})
    return out
