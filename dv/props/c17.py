"""C17 — git blame output keeps code and attribution; colours follow commits (structural part)."""
from .. import rules as Ru
from .. import e1, rx, rxsites
from ..facts import callee_of, callee_full, reach

EXPLANATION = (
    "TABLE: the colour-choice function is evaluated by the abstract interpreter over the finite decision domain (key has a colour? previous "
    "key has a colour? is_repeat? the two colours equal?), with the memo lookups and the colour comparison modelled as memoised predicates; "
    "for every feasible case the outcome (key's own colour / NEXT excluding which colour) must be the one the property statement implies: "
    "repeats share the colour, a differently attributed line never gets its predecessor's colour, a reappearing key keeps its colour unless "
    "that collides. NEXT: the next-colour function returns the alternative palette entry ((n+1) % len) exactly on the edge where the "
    "candidate equals the excluded colour. MEMO: after the colour is chosen it is inserted in the memo under the same key on every path; "
    "is_repeat is computed as previous_key == key; the state stored is Blame(key). REGEX: all five groups read with unwrap() are mandatory "
    "in the blame line regex.")


class _Probe(e1.Machine):
    def __init__(self, F, next_fn, excl_idx=1):
        super().__init__(F)
        self.next_fn = next_fn
        self.excl_idx = excl_idx
        self.next_calls = []

    def call_outcomes(self, path, c, callee, full, argv, g, memo):
        a0 = argv[0] if argv else e1.T0
        if callee == self.next_fn:
            excl = argv[self.excl_idx] if len(argv) > self.excl_idx else e1.T0
            if excl[0] == 'enum' and excl[2] == 0:
                tag = 'none'
            else:
                pv = e1.prov_of(excl)
                tag = 'this' if 'color_of_this' in pv else ('prev' if 'color_of_prev' in pv else '?')
            return [(e1.TOP({'next_excl_' + tag}), g, memo)]
        if callee.endswith('::get') and 'HashMap' in full and a0[0] == 'ref' and a0[1][-1] == 'blame_key_colors':
            pv = e1.prov_of(argv[1]) if len(argv) > 1 else set()
            who = 'this' if 'this_key' in pv else ('prev' if 'prev_key' in pv else '?')
            return self.predicate(('has', 'memo', who), g, memo, e1.ENUM(e1.OPT, 1, [e1.TOP({'color_of_' + who})]), e1.ENUM(e1.OPT, 0, []))
        if (callee.endswith('::eq') or callee.endswith('::ne')) and len(argv) == 2:
            pa, pb = e1.prov_of(argv[0]), e1.prov_of(argv[1])
            if {'color_of_this', 'color_of_prev'} <= (pa | pb):
                neg = callee.endswith('::ne')
                return self.predicate(('colors_equal', 'memo', ''), g, memo, e1.BOOL(not neg), e1.BOOL(neg))
        return super().call_outcomes(path, c, callee, full, argv, g, memo)


def expected(has_this, has_prev, repeat, equal):
    """outcome the property implies, or None if the case cannot arise"""
    if not has_this and repeat:
        return None        # a repeated key has been given a colour on the previous line
    if has_this and not has_prev:
        return None        # a coloured key implies an earlier (coloured) line
    if repeat:
        return 'this' if equal in (True, None) else None
    if not has_this and has_prev:
        return 'next_excl_prev'
    if not has_this and not has_prev:
        return 'next_excl_none'
    if has_this and has_prev:
        return 'this' if equal is False else 'next_excl_any'
    return None


def run(F, tier, res):
    res.assumptions += ['HashMap::get / insert behave as a map; the palette has at least two distinct colours (stated in the property)']
    res.not_decided += ['timestamp parsing / formatting, padding widths, that the code text is unchanged (value-level)']
    # the two colour functions, as methods of the state machine or as associated / free functions handed the memo and the palette
    gcs = [p for p in F.fn_bodies if p.endswith('::get_color') and 'blame' in p]
    gns = [p for p in F.fn_bodies if p.endswith('::get_next_color') and 'blame' in p]
    bms = [p for p in F.fn_bodies if p.endswith('::blame_metadata_style')]
    if not gcs or not gns or not bms:
        res.anchor_missing('blame::{get_color, get_next_color, blame_metadata_style}')
        return res
    gc, gn, bm = gcs[0], gns[0], bms[0]

    def _ptypes(fn):
        mir_ = F.bodies[fn]['mir']
        return [mir_['locals'][i].replace("'_ ", '').replace(' ', '') for i in range(1, mir_['arg_count'] + 1)]

    def _pidx(fn, pred):
        return [i + 1 for i, t_ in enumerate(_ptypes(fn)) if pred(t_)]
    is_optstr = lambda t_: t_.startswith('std::option::Option<&') and 'str' in t_
    is_palette = lambda t_: t_ in ('&[std::string::String]', '&std::vec::Vec<std::string::String>')
    gc_key = (_pidx(gc, lambda t_: t_ == '&str') or [2])[0]
    gn_excl = (_pidx(gn, is_optstr) or [2])[0]
    gn_pal = _pidx(gn, is_palette)

    def _is_palette_op(fn, op):
        return any((r[0] in ('param', 'local') and 'blame_palette' in r[2]) or (r[0] == 'param' and r[1] in gn_pal and fn == gn) for r in F.trace(fn, op))

    def _probe_args(repeat, prev):
        out = []
        for t_ in _ptypes(gc):
            if 'StateMachine' in t_:
                out.append(e1.REF(('SM',)))
            elif 'HashMap' in t_:
                out.append(e1.REF(('SM', 'blame_key_colors')))
            elif is_palette(t_):
                out.append(e1.REF(('SM', 'config', 'blame_palette')))
            elif t_ == '&str':
                out.append(e1.TOP({'this_key'}))
            elif is_optstr(t_):
                out.append(prev)
            elif t_ == 'bool':
                out.append(e1.BOOL(repeat))
            else:
                out.append(e1.T0)
        return out
    n = ok = 0
    samples = []
    for has_prev_key in (True, False):
        for repeat in (True, False):
            m = _Probe(F, gn, gn_excl - 1)
            m.RELEVANT = set(m.RELEVANT) | {gc}
            m.stack.append('<probe>')
            prev = e1.ENUM(e1.OPT, 1, [e1.TOP({'prev_key'})]) if has_prev_key else e1.ENUM(e1.OPT, 0, [])
            outs = m.call_fn(gc, _probe_args(repeat, prev), m.g0(), ())
            aborted = {(a['memo'] and tuple(a['memo'])) for a in m.aborts.values()}
            cases = {}
            for (rv, g, memo) in outs:
                d = {k[0] + ':' + str(k[2]): v for k, v in memo}
                key = (d.get('has:this'), d.get('has:prev', False if not has_prev_key else None), repeat, d.get('colors_equal:'))
                pv = e1.prov_of(rv)
                out = 'this' if 'color_of_this' in pv else next((x for x in pv if x.startswith('next_excl_')), 'other:%s' % sorted(pv))
                cases.setdefault(key, set()).add(out)
            for key, outs_ in sorted(cases.items(), key=str):
                has_this, has_prev, rep, equal = key
                exp = expected(bool(has_this), bool(has_prev), rep, equal)
                n += 1
                samples.append('key_has_colour=%s prev_has_colour=%s repeat=%s equal=%s -> %s (expected %s)' % (has_this, has_prev, rep, equal, sorted(outs_), exp))
                if exp is None:
                    ok += 1
                    continue
                good = all(o == exp or (exp == 'next_excl_any' and o in ('next_excl_this', 'next_excl_prev')) for o in outs_)
                if good:
                    ok += 1
                else:
                    res.violate('TABLE', 'case=%s,%s,%s,%s' % key, 'blame colour choice for (key has colour=%s, previous has colour=%s, repeat=%s, colours equal=%s) is %s, '
                                'the property implies %s' % (has_this, has_prev, rep, equal, sorted(outs_), exp), where=F.bodies[gc]['mir']['span']['at'])
    res.rule('C17.TABLE', n, 6, 'feasible decision cases of the colour-choice function, outcome vs specification', discharged=ok, samples=samples)
    # ---------- NEXT
    nn = okn = 0
    blocks = F.blocks(gn)
    # palette index sites: Index::index calls on the palette, or built-in indexing of a palette slice (`palette[i]` with `palette: &[String]`)
    idx_calls = [(i, c['args'][1], F.span_of_call(c)) for i, c in F.calls(gn) if callee_of(c).endswith('::index') and _is_palette_op(gn, c['args'][0])]
    for bi_, blk_ in enumerate(blocks):
        if blk_['cleanup']:
            continue
        for st in blk_['s']:
            if st[0] != 'assign':
                continue
            for pl_ in [x for x in st[2][1:] if isinstance(x, dict)] + [x.get('copy') or x.get('move') for x in st[2][1:] if isinstance(x, dict) and ('copy' in x or 'move' in x)]:
                if not pl_ or 'p' not in pl_:
                    continue
                ix = [pr for pr in pl_['p'] if pr[0] == 'index']
                if ix and _is_palette_op(gn, {'copy': {'l': pl_['l'], 'p': []}}):
                    site = (bi_, {'copy': {'l': ix[0][1], 'p': []}}, F.bodies[gn]['mir']['span']['at'])
                    if not any(s_[0] == bi_ and s_[1] == site[1] for s_ in idx_calls):
                        idx_calls.append(site)
    plain = alt = None
    for (i, iop, _w) in idx_calls:
        roots = F.trace(gn, iop)
        has_add1 = any(r[0] == 'binop' and r[1].startswith('Add') for r in roots) and ('int', 1) in F.operand_literals(gn, iop)
        has_rem = any(r[0] == 'binop' and r[1].startswith('Rem') for r in roots)
        if has_rem and has_add1:
            alt = i
        elif has_rem:
            plain = i
    # both indices are reduced modulo the PALETTE length (not the number of keys or anything else)
    for (i, iop, where_) in idx_calls:
        nn += 1
        mod_ok = False
        from .c20 import _find_binop_rvalue
        rems = []
        work = [iop]
        seen_l = set()
        while work:
            o_ = work.pop()
            q_ = o_.get('copy') or o_.get('move')
            if not q_ or q_['l'] in seen_l:
                continue
            seen_l.add(q_['l'])
            for (dbb, kind, payload) in F.local_defs(gn).get(q_['l'], []):
                if kind == 'assign' and payload[0] == 'binop' and payload[1].startswith('Rem'):
                    rems.append(payload)
                elif kind == 'assign':
                    for y in payload[1:]:
                        if isinstance(y, dict):
                            work.append(y)
        for rv in rems:
            rhs = F.trace(gn, rv[3])
            if any(r[0] == 'call' and r[1].endswith('::len') and any(_is_palette_op(gn, a) for a in r[4]['args'][:1]) for r in rhs) or \
                    (any(r[0] == 'unop' and r[1] == 'PtrMetadata' for r in rhs) and _is_palette_op(gn, rv[3])):
                mod_ok = True
        if mod_ok:
            okn += 1
        else:
            res.violate('NEXT', 'fn=%s;modulus' % gn, 'a palette index in the next-colour function is not reduced modulo the palette length: the alternative colour can coincide with the '
                        'excluded one (or the index can leave the palette)', where=where_)
    nn += 1
    good = False
    if plain is not None and alt is not None:
        # the alternative is used exactly on the edge where candidate == excluded
        for (sb, op, arms, other) in Ru.switches(F, gn):
            roots = F.trace(gn, op)
            cmpc = [r for r in roots if r[0] == 'call' and (r[1].endswith('::ne') or r[1].endswith('::eq'))]
            if not cmpc:
                continue
            uses_param = any(rr[0] == 'param' and rr[1] == gn_excl for r in cmpc for a in r[4]['args'] for rr in F.trace(gn, a))
            if not uses_param:
                continue
            is_ne = cmpc[0][1].endswith('::ne')
            neg = Ru.negations(F, gn, op) % 2 == 1
            tt, ft = Ru.bool_edges(arms, other)
            equal_edge = ft if (is_ne != neg) else tt
            differ_edge = tt if (is_ne != neg) else ft
            if Ru.edge_dominates(F, gn, sb, equal_edge, alt) and not Ru.edge_dominates(F, gn, sb, differ_edge, alt) and plain in F.dominators(gn)[sb]:
                good = True
    if good:
        okn += 1
    else:
        res.violate('NEXT', 'fn=%s' % gn, 'the next-colour function does not return the alternative palette entry exactly when the candidate equals the excluded colour', where=F.bodies[gn]['mir']['span']['at'])
    res.rule('C17.NEXT', nn, 1, 'next-colour function: palette[n % len] unless equal to the excluded colour, then palette[(n+1) % len]', discharged=okn)
    # ---------- MEMO
    nm = okm = 0
    gc_rep = (_pidx(gc, lambda t_: t_ == 'bool') or [4])[0]
    # the function that asks for the colour (the style function itself, or a helper extracted from it) records it
    for fm in sorted(p_ for p_ in F.fn_bodies if any(callee_of(c_) == gc for _, c_ in F.calls(p_))):
      for i, c in F.calls(fm):
        if callee_of(c) != gc:
            continue
        nm += 1
        ins = [(j, cc) for j, cc in F.calls(fm) if callee_of(cc).endswith('::insert') and 'HashMap' in callee_full(cc) and any(r[0] in ('param', 'local') and 'blame_key_colors' in r[2] for r in F.trace(fm, cc['args'][0]))]
        kpar = {r[1] for r in F.trace(fm, c['args'][gc_key - 1]) if r[0] == 'param' and not r[2]}
        rpar = {r[1] for r in F.trace(fm, c['args'][gc_rep - 1]) if r[0] == 'param' and not r[2]} if gc_rep - 1 < len(c['args']) else set()
        good = False
        for (j, cc) in ins:
            key_ok = any(r[0] == 'param' and r[1] in kpar for r in F.trace(fm, cc['args'][1], deep=True))
            val_ok = any(r[0] == 'call' and r[1] == gc for r in F.trace(fm, cc['args'][2], deep=True))
            if key_ok and val_ok and kpar:
                # every path on which the key is NOT a repeat must pass the insert (for a repeat the stored colour is the same)
                S2 = {}
                cut = set()
                for (sb, op, arms, other) in Ru.switches(F, fm):
                    if any(r[0] == 'param' and r[1] in rpar and not r[2] for r in F.trace(fm, op)):
                        tt, ft = Ru.bool_edges(arms, other)
                        neg = Ru.negations(F, fm, op) % 2 == 1
                        cut.add((sb, ft if neg else tt))
                for b_, ss in F.cfg(fm).items():
                    S2[b_] = [x for x in ss if (b_, x) not in cut]
                r_ = reach(S2, c['target'], avoid={j})
                if not any(x in r_ for x in Ru.returns(F, fm)):
                    good = True
        if good:
            okm += 1
        else:
            res.violate('MEMO', 'fn=%s' % fm, 'the colour chosen for a blame key is not recorded under that key on every path: the next line of the same commit may get a different colour', where=F.span_of_call(c))
    # is_repeat provenance + state
    hb = [p for p in F.fn_bodies if any(callee_of(c) == bm for _, c in F.calls(p))]
    for p in hb:
        for i, c in F.calls(p):
            if callee_of(c) != bm:
                continue
            nm += 1
            roots = F.trace(p, c['args'][3], deep=True)
            eqs = [r for r in roots if r[0] == 'call' and r[1].endswith('::eq')]
            if eqs and not any(r[0] == 'unop' and r[1] == 'Not' for r in roots):
                okm += 1
            else:
                res.violate('MEMO', 'fn=%s;is_repeat' % p, 'is_repeat is not computed as previous key == key', where=F.span_of_call(c))
        nm += 1
        ws = [w for w in Ru.field_writes(F, p, 'delta::StateMachine', 'state')]
        blame_writes = []
        for (bb, chain, kind, payload) in ws:
            if kind == 'assign':
                rts = F.trace(p, payload[2][1]) if payload[2][0] == 'use' else ([('agg', payload[2][1])] if payload[2][0] == 'agg' else [])
                if any(r[0] == 'agg' and r[1][0] == 'adt' and r[1][1] == 'delta::State' and r[1][3] == 'Blame' for r in rts):
                    blame_writes.append(bb)
        if blame_writes:
            okm += 1
        else:
            res.violate('MEMO', 'fn=%s;state' % p, 'the blame handler does not store State::Blame(key): the next line cannot see its predecessor', where=F.bodies[p]['mir']['span']['at'])
    res.rule('C17.MEMO', nm, 1, 'memo insert after colour choice; is_repeat provenance; Blame(key) state stored', discharged=okm)
    # ---------- PAINTED: the colour chosen for this line is the colour painted: on every path from the choice to the return of the function that
    # asked for it, the chosen colour is parsed into the style (a style taken from anywhere else - a per-key cache, the previous line - can be
    # the colour the collision test has just moved away from)
    npd = okpd = 0
    for fm in sorted(p_ for p_ in F.fn_bodies if any(callee_of(c_) == gc for _, c_ in F.calls(p_))):
        for i, c in F.calls(fm):
            if callee_of(c) != gc or c['target'] is None:
                continue
            npd += 1
            parses = {j for j, cc in F.calls(fm) if callee_of(cc).endswith(('::parse_color', 'Style::from_colors')) and
                      any(r[0] == 'call' and r[1] == gc for a in cc['args'] for r in F.trace(fm, a, deep=True))}
            miss = Ru.must_pass(F, fm, c['target'], parses) if parses else [0]
            if miss:
                res.violate('PAINTED', 'fn=%s' % fm, 'on some path the style returned for a blame line is not built from the colour that was just chosen for it: the collision '
                            'avoidance decides one colour and another one is painted', where=F.span_of_call(c))
            else:
                okpd += 1
    res.rule('C17.PAINTED', npd, 1, 'colour choices: every path to the return parses the chosen colour into the returned style', discharged=okpd)
    # ---------- DEPTH: collisions are avoided by comparing palette STRINGS; that is sound only while different strings are painted as different
    # colours. The 24-bit -> 256-colour reduction is many-to-one, so the blame colour must be parsed at full depth whatever --true-color says
    nd = okd = 0
    for (bq, i, c) in [(q_, i_, c_) for q_ in sorted(F.fn_bodies) if 'handlers::blame' in q_ for i_, c_ in F.calls(q_)]:
        if not callee_of(c).endswith('::parse_color') or len(c['args']) < 2:
            continue
        nd += 1
        lits = F.operand_literals(bq, c['args'][1])
        if lits and all(v == ('bool', True) for v in lits) and not any(r[0] in ('param', 'call') for r in F.trace(bq, c['args'][1])):
            okd += 1
        else:
            res.violate('DEPTH', 'fn=%s' % bq, 'the blame colour is parsed at the configured colour depth instead of full depth: two palette entries that differ as strings '
                        '(which is what the collision test compares) can be painted as the same 256-colour cell, so adjacent commits get the same colour', where=F.span_of_call(c))
    res.rule('C17.DEPTH', nd, 1, 'colour parses in the blame style function: colour depth argument is the constant true', discharged=okd)
    # ---------- REGEX
    acc, statics = rxsites.capture_accesses(F)
    nr = okr = 0
    for a in acc:
        if a['regex'] and a['regex'][0] == 'static' and 'BLAME_LINE_REGEX' in a['regex'][1] and a['unwrapped']:
            nr += 1
            try:
                g, ng = rx.groups(statics[a['regex'][1]])
            except rx.RxError as e:
                res.violate('REGEX', 'unparsable', str(e))
                continue
            if a['index'] in g and g[a['index']]['mandatory']:
                okr += 1
            else:
                res.violate('REGEX', 'fn=%s;group=%s' % (a['fn'], a['index']), 'capture group %s of the blame line regex is read with unwrap() but does not participate in every match: a blame line can crash delta' % a['index'], where=a['where'])
    res.rule('C17.REGEX', nr, 3, 'unwrapped capture-group reads of the blame line regex; each group mandatory', discharged=okr)
    res.distinct.update(r['rule'] for r in res.rules)
    return res
