"""Group structure of regex literals (Rust `regex` syntax) via Python's own regex parser: which capture groups are
mandatory (participate in every match), nesting, alternation. Syntax differences between Rust `regex` and Python `re`
that do not affect group structure are a stated assumption; a literal that does not parse fails closed."""
import re
try:
    import re._parser as sre_parse
    import re._constants as sre_constants
except ImportError:  # python < 3.11
    import sre_parse
    import sre_constants


class RxError(Exception):
    pass


def _prep(pat):
    # Rust allows (?<name>...) as well as (?P<name>...)
    pat = re.sub(r'\(\?<([A-Za-z_][A-Za-z0-9_]*)>', r'(?P<\1>', pat)
    # Rust: \z, \A same; \p{..} classes: replace by a plain class (no group structure inside)
    pat = re.sub(r'\\[pP]\{[^}]*\}', 'X', pat)
    pat = re.sub(r'\\[pP][A-Za-z]', 'X', pat)
    pat = pat.replace(r'\z', r'\Z')
    # Rust supports nested classes / intersections [a&&b], [[:alpha:]]: approximate
    pat = re.sub(r'\[\[:(\w+):\]\]', 'X', pat)
    pat = re.sub(r'\[:(\w+):\]', 'X', pat)
    # \x{...}
    pat = re.sub(r'\\x\{[0-9a-fA-F]+\}', 'X', pat)
    return pat


def groups(pat):
    """returns {group_index: {'mandatory': bool, 'parent': idx or 0, 'name': str|None}}, n_groups"""
    try:
        import warnings
        with warnings.catch_warnings():
            warnings.simplefilter('ignore')
            tree = sre_parse.parse(_prep(pat))
    except Exception as e:
        raise RxError('cannot parse %r: %s' % (pat[:60], e))
    names = {v: k for k, v in tree.state.groupdict.items()}
    info = {}

    def walk(seq, mandatory, parent):
        for op, av in seq:
            opn = str(op)
            if opn == 'SUBPATTERN':
                gid, add, dele, sub = av
                if gid is not None:
                    info[gid] = {'mandatory': mandatory, 'parent': parent, 'name': names.get(gid)}
                    walk(sub, mandatory, gid)
                else:
                    walk(sub, mandatory, parent)
            elif opn in ('MAX_REPEAT', 'MIN_REPEAT', 'POSSESSIVE_REPEAT'):
                lo, hi, sub = av
                walk(sub, mandatory and lo >= 1, parent)
            elif opn == 'BRANCH':
                _, alts = av
                for alt in alts:
                    walk(alt, mandatory and len(alts) == 1, parent)
            elif opn in ('ASSERT', 'ASSERT_NOT'):
                walk(av[1], False, parent)
            elif opn == 'GROUPREF_EXISTS':
                gid, yes, no = av
                walk(yes, False, parent)
                if no:
                    walk(no, False, parent)
            elif opn == 'ATOMIC_GROUP':
                walk(av, mandatory, parent)
    walk(tree, True, 0)
    return info, tree.state.groups - 1


def alternation_siblings(pat):
    """for each group, the set of groups that sit in sibling branches of the same alternation (mutually exclusive)"""
    import warnings
    with warnings.catch_warnings():
        warnings.simplefilter('ignore')
        tree = sre_parse.parse(_prep(pat))
    excl = {}

    def collect(seq, acc):
        for op, av in seq:
            opn = str(op)
            if opn == 'SUBPATTERN':
                gid, add, dele, sub = av
                if gid is not None:
                    acc.add(gid)
                collect(sub, acc)
            elif opn in ('MAX_REPEAT', 'MIN_REPEAT', 'POSSESSIVE_REPEAT'):
                collect(av[2], acc)
            elif opn == 'BRANCH':
                for alt in av[1]:
                    collect(alt, acc)

    def walk(seq):
        for op, av in seq:
            opn = str(op)
            if opn == 'SUBPATTERN':
                walk(av[3])
            elif opn in ('MAX_REPEAT', 'MIN_REPEAT', 'POSSESSIVE_REPEAT'):
                walk(av[2])
            elif opn == 'BRANCH':
                sets = []
                for alt in av[1]:
                    s = set()
                    collect(alt, s)
                    sets.append(s)
                    walk(alt)
                for i, s in enumerate(sets):
                    others = set().union(*[x for j, x in enumerate(sets) if j != i]) if len(sets) > 1 else set()
                    for g in s:
                        excl.setdefault(g, set()).update(others)
    walk(tree)
    return excl


def lazy_repeats_in_group(pat, gid):
    """number of lazy (minimal) repetitions inside capture group gid"""
    import warnings
    with warnings.catch_warnings():
        warnings.simplefilter('ignore')
        try:
            tree = sre_parse.parse(_prep(pat))
        except Exception as e:
            raise RxError('cannot parse %r: %s' % (pat[:60], e))
    count = [0]

    def walk(seq, inside):
        for op, av in seq:
            opn = str(op)
            if opn == 'SUBPATTERN':
                g, add, dele, sub = av
                walk(sub, inside or g == gid)
            elif opn in ('MAX_REPEAT', 'MIN_REPEAT', 'POSSESSIVE_REPEAT'):
                lo, hi, sub = av
                if opn == 'MIN_REPEAT' and inside:
                    count[0] += 1
                walk(sub, inside)
            elif opn == 'BRANCH':
                for alt in av[1]:
                    walk(alt, inside)
            elif opn in ('ASSERT', 'ASSERT_NOT'):
                walk(av[1], inside)
            elif opn == 'ATOMIC_GROUP':
                walk(av, inside)
    walk(tree, False)
    return count[0]
