"""C04 — text that is not diff/blame/grep output passes through byte-for-byte (structural part)."""
from . import _e1common as E
from .. import rules as Ru
from ..facts import callee_of, callee_full

EXPLANATION = (
    "Three structural clauses. PASS (E1 pass-through mode): from every reachable line-start state whose State is Unknown / CommitMeta / "
    "SubmoduleLog / Blame / Grep, a line that starts with none of the marker literals, matches no recogniser (regexes, local parsers) "
    "and comes from no special calling process is claimed by the total fall-through handler, which flushes the output buffer and "
    "performs exactly one write whose data provenance is raw_line only, with one newline and nothing deferred. DECLINE-MUT (E1 modes N/H): "
    "no handler that declines a line (returns Ok(false)) has written line/raw_line. INGEST (MIR rule): between reading the bytes and the "
    "first handler, raw_line is written only by the ingest function(s); each write is either the store of the decoded input or is "
    "control-dependent on the CR search or on the max_line_length comparison; `line` is derived from raw_line only.")

SM = 'delta::StateMachine'


def _with_closures(F, roots, depth=0):
    """closure bodies are treated as inlined: the calls made inside a closure that is part of a value's provenance count as roots"""
    from .c13 import _closure_calls
    out = list(roots)
    for r in roots:
        if r[0] == 'agg' and r[1][0] == 'closure':
            out += [('call', callee_of(c2), 0, (), c2) for c2 in _closure_calls(F, r[1][1])]
    return out


def _cond_trace(F, fn, op):
    """provenance of a branch condition; an `if let Some(x) = opt` whose `opt` was produced by Option combinators
    (s.rfind(c).filter(..).map(..)) is a test of the search those combinators start from"""
    rs = F.trace(fn, op)
    if any(r[0] == 'call' and r[1].startswith(('std::option::Option', 'core::option::Option')) for r in rs):
        rs = rs + [x for r in rs if r[0] == 'call' and r[1].startswith(('std::option::Option', 'core::option::Option'))
                   for a in r[4]['args'][:1] for x in F.trace(fn, a, deep=True)]
    return rs


def helper_zero_guard(F, fn, i):
    """the positivity test may sit in a predicate method called in a dominating condition (`if self.raw_line_is_too_long()`)"""
    def pred(rs):
        for r in rs:
            if r[0] != 'call':
                continue
            q = r[1] if r[1] in F.fn_bodies else (r[4].get('resolved') or '')
            if q in F.fn_bodies and F.bodies[q]['mir']['locals'][0] == 'bool':
                for blk in F.blocks(q):
                    for st in blk['s']:
                        if st[0] == 'assign' and st[2][0] == 'binop' and st[2][1] in ('Gt', 'Ne', 'Lt', 'Ge'):
                            ops = st[2][2:4]
                            if any(x[0] == 'param' and x[2] and x[2][-1] == 'max_line_length' for o in ops for x in F.trace(q, o)) and \
                                    any('const' in o and str(o['const'].get('repr', '')).startswith(('0_', '1_')) for o in ops):
                                return True
        return False
    return Ru.guarded_by(F, fn, i, pred) or Ru.guarded_by(F, fn, i, pred, want_true=False)


def ingest_rule(F, res, ingest_fn):
    if not ingest_fn:
        res.anchor_missing('ingest function (fn(&mut StateMachine, &[u8]))')
        return
    fns = {ingest_fn} | {c for c in F.reachable_from([ingest_fn]) if any(w for w in Ru.field_writes(F, c, SM, None))}
    n = ok = 0
    samples = []
    for fn in sorted(fns):
        mir = F.bodies[fn]['mir']
        for (bb, chain, kind, payload) in Ru.field_writes(F, fn, SM, None):
            fld = chain[-1][1] if chain[-1][0] in (SM, None) else None
            flds = [f for a, f in chain if a in (SM, None)]
            if 'raw_line' in flds:
                n += 1
                # value provenance
                if kind == 'assign':
                    roots = F.trace(fn, payload[2][1], deep=True) if payload[2][0] == 'use' else []
                elif kind == 'call':
                    roots = [r for a in payload['args'] for r in F.trace(fn, a, deep=True)]
                else:
                    roots = [r for a in payload['args'][1:] for r in F.trace(fn, a, deep=True)]
                roots = _with_closures(F, roots)
                from_input = any(r[0] == 'param' and r[1] >= 2 for r in roots) or \
                    any(r[0] == 'call' and ('from_utf8' in r[1]) for r in roots)
                primary = from_input and not any(r[0] == 'param' and r[1] == 1 and 'raw_line' in r[2] for r in roots)

                def helper_kinds(rs, depth=0):
                    """kinds of guard ('cr' / 'len') established inside local bool predicates called in the condition (extracted guards)"""
                    kinds = set()
                    if depth > 2:
                        return kinds
                    for r in rs:
                        if r[0] != 'call':
                            continue
                        q = r[1] if r[1] in F.fn_bodies else (r[4].get('resolved') or '')
                        if q in F.fn_bodies and F.bodies[q]['mir']['locals'][0] == 'bool':
                            for blk in F.blocks(q):
                                for st in blk['s']:
                                    if st[0] == 'assign' and st[2][0] == 'binop' and st[2][1] in ('Gt', 'Ge', 'Lt', 'Le'):
                                        for o in st[2][2:4]:
                                            if any(x[0] == 'param' and x[2] and x[2][-1] == 'max_line_length' for x in F.trace(q, o)):
                                                kinds.add('len')
                            for _, c2 in F.calls(q):
                                if callee_of(c2).endswith(('::rfind', '::find')) and any(v == ('char', '\r') for a in c2['args'] for v in F.operand_literals(q, a)):
                                    kinds.add('cr')
                                kinds |= helper_kinds([('call', callee_of(c2), 0, (), c2)], depth + 1)
                    return kinds

                def cr_or_len(rs):
                    if helper_kinds(rs):
                        return True
                    has_cr = any(r[0] == 'call' and r[1].endswith(('::rfind', '::find')) and
                                 any(v == ('char', '\r') for a in r[4]['args'] for v in F.operand_literals(fn, a)) for r in rs)
                    has_len = any(r[0] == 'binop' and r[1] in ('Gt', 'Ge', 'Lt', 'Le') for r in rs) and \
                        any(r[0] == 'param' and r[2] and r[2][-1] == 'max_line_length' for r in rs)
                    return has_cr or has_len
                guarded = any(Ru.edge_dominates(F, fn, sb, tgt, bb)
                              for (sb, op, arms, other) in Ru.switches(F, fn) if cr_or_len(_cond_trace(F, fn, op))
                              for tgt in set([b for _, b in arms] + [other]))
                samples.append('%s bb%d %s' % (fn.split('::')[-1], bb, 'primary-store' if primary else ('guarded' if guarded else 'UNGUARDED')))
                # which guard? the CR branch may only splice the CR out (both halves of the line kept); in-place cuts belong to the length branch
                def is_cr(rs):
                    return any(r[0] == 'call' and r[1].endswith(('::rfind', '::find')) for r in rs) or 'cr' in helper_kinds(rs)
                under_cr = any(Ru.edge_dominates(F, fn, sb, tgt, bb) for (sb, op, arms, other) in Ru.switches(F, fn) if is_cr(_cond_trace(F, fn, op))
                               for tgt in set([b for _, b in arms] + [other]))
                under_len = any(Ru.edge_dominates(F, fn, sb, tgt, bb) for (sb, op, arms, other) in Ru.switches(F, fn)
                                if any(r[0] == 'param' and r[2] and r[2][-1] == 'max_line_length' for r in F.trace(fn, op)) or 'len' in helper_kinds(F.trace(fn, op))
                                for tgt in set([b for _, b in arms] + [other]))
                if under_cr and not under_len and not primary:
                    n_idx = sum(1 for r in roots if r[0] == 'call' and r[1].endswith('::index'))
                    if kind.startswith('mutcall') or n_idx < 2:
                        res.violate('INGEST', 'fn=%s;field=raw_line;cr-form' % fn,
                                    'under the CR search raw_line is not rebuilt from both the part before and the part after the CR: more than the carriage return is removed',
                                    where=F.bodies[fn]['mir']['span']['at'])
                        continue
                if primary or guarded or from_input:
                    ok += 1
                else:
                    res.violate('INGEST', 'fn=%s;field=raw_line;ord=%d' % (fn, n),
                                'raw_line is rewritten during ingestion by something other than the CR removal / the max-line-length truncation / the decode of the input',
                                where=F.bodies[fn]['mir']['span']['at'])
            elif 'line' in flds and flds[-1] == 'line':
                n += 1
                if kind == 'assign':
                    roots = F.trace(fn, payload[2][1], deep=True) if payload[2][0] == 'use' else []
                elif kind == 'call':
                    roots = [r for a in payload['args'] for r in F.trace(fn, a, deep=True)]
                else:
                    roots = [r for a in payload['args'][1:] for r in F.trace(fn, a, deep=True)]
                # ... or from the very value that this function stores into raw_line (the line is prepared in a local and stored at the end)
                raw_src = set()
                for (bb2, chain2, kind2, payload2) in Ru.field_writes(F, fn, SM, None):
                    if 'raw_line' in [f for a, f in chain2 if a in (SM, None)] and kind2 == 'assign' and payload2[2][0] == 'use':
                        raw_src |= {r[1] for r in F.trace(fn, payload2[2][1], deep=True) if r[0] == 'param' and r[1] >= 2 and not r[2]}
                if any(r[0] == 'param' and r[1] == 1 and 'raw_line' in r[2] for r in roots) or \
                        (raw_src and any(r[0] == 'param' and r[1] in raw_src and not r[2] for r in roots)):
                    ok += 1
                    samples.append('%s bb%d line<-raw_line' % (fn.split('::')[-1], bb))
                else:
                    res.violate('INGEST', 'fn=%s;field=line;ord=%d' % (fn, n), 'the stripped line is not derived from raw_line', where=F.bodies[fn]['mir']['span']['at'])
    # a position found by searching a sub-slice of the line is relative to that sub-slice: it may only be used to cut the whole line
    # after the sub-slice's start has been added back
    for fn in sorted(fns):
        for i, c in F.calls(fn):
            r = callee_of(c)
            if not (r.endswith('::index') and ('for str>' in r or 'String as std::ops::Index' in r or 'Range' in callee_full(c))):
                continue
            if not any(rr[0] == 'param' and rr[2] and rr[2][-1] == 'raw_line' for rr in F.trace(fn, c['args'][0])):
                continue
            if any(rr[0] == 'call' and rr[1].endswith('::index') for rr in F.trace(fn, c['args'][0])):
                continue     # the receiver is itself a sub-slice
            pl = c['args'][1].get('move') or c['args'][1].get('copy')
            rng = None
            for (dbb, kind, payload) in (F.local_defs(fn).get(pl['l'], []) if pl and not pl['p'] else []):
                if kind == 'assign' and payload[0] == 'agg':
                    rng = payload
            if rng is None:
                continue
            for o in rng[2]:
                roots = F.trace(fn, o)
                finds = [rr for rr in roots if rr[0] == 'call' and rr[1].endswith(('::rfind', '::find', '::position', '::rposition'))]
                if not finds:
                    continue
                n += 1
                rel = any(any(x[0] == 'call' and x[1].endswith('::index') for x in F.trace(fn, f_[4]['args'][0])) for f_ in finds)
                compensated = any(rr[0] == 'binop' and rr[1].replace('WithOverflow', '') == 'Add' and not all(v[0] == 'int' for v in F.operand_literals(fn, o)) for rr in roots) and \
                    any(rr[0] == 'binop' and rr[1].replace('WithOverflow', '') == 'Add' for rr in roots) and len([rr for rr in roots if rr[0] in ('call', 'param', 'local')]) >= 2
                if rel and not compensated:
                    res.violate('INGEST', 'fn=%s;relative-position' % fn, 'raw_line is cut at a position that was found by searching a sub-slice of it, without adding the sub-slice\'s start: '
                                'the wrong bytes are removed from lines longer than the searched window', where=F.span_of_call(c))
                else:
                    ok += 1
    # ZERO-UNLIMITED: --max-line-length 0 means "never truncate". Every cut of the line at a position derived from config.max_line_length
    # must therefore be dominated by a test that the limit is positive (`max_line_length > 0`, `!= 0`); an unconditional
    # `line[..min(limit, len)]` empties the line when the limit is 0
    nz = okz = 0
    for fn in sorted(fns):
        for i, c in F.calls(fn):
            r = callee_of(c)
            uses_limit = [a for a in c['args'] if any(x[0] in ('param', 'local') and x[2] and x[2][-1] == 'max_line_length' for x in F.trace(fn, a))]
            if not uses_limit:
                continue
            if r.endswith(('::gt', '::ge', '::lt', '::le', '::eq', '::ne', '::cmp', '::partial_cmp')):
                continue
            nz += 1

            def positive(rs):
                return any(x[0] == 'binop' and x[1] in ('Gt', 'Ne', 'Lt', 'Ge', 'Eq', 'Le') for x in rs) and \
                    any(x[0] in ('param', 'local') and x[2] and x[2][-1] == 'max_line_length' for x in rs) and \
                    any(x[0] == 'const' and str(x[1]).startswith(('0_', '1_')) for x in rs)
            if Ru.guarded_by(F, fn, i, positive) or Ru.guarded_by(F, fn, i, positive, want_true=False) or helper_zero_guard(F, fn, i):
                okz += 1
            else:
                res.violate('INGEST', 'fn=%s;callee=%s;zero-unlimited' % (fn, r.split('::')[-1]), 'the line is cut at a position computed from max_line_length without first testing that the '
                            'limit is positive: with --max-line-length 0 (documented as "no truncation") the line is emptied', where=F.span_of_call(c))
    n += nz
    ok += okz
    # LIMIT-NOT-LOWERED: under side-by-side the effective max_line_length is recomputed from the wrap budget. Lines that are passed through are
    # never wrapped, so the recomputed limit must not fall below what the user asked for: every value the function returns is the user's
    # limit, a maximum that includes it, or 0 (no limit)
    nl = okl = 0
    for q in sorted(F.fn_bodies):
        mir = F.bodies[q]['mir']
        if not (q.endswith('::config_max_line_length') and mir['locals'][0] == 'usize'):
            continue
        lim = [nm[1]['l'] for nm in mir['names'] if nm[0] == 'max_line_length' and not nm[1]['p'] and 1 <= nm[1]['l'] <= mir['arg_count']]
        if not lim:
            continue
        for bi, blk in enumerate(F.blocks(q)):
            if blk['cleanup']:
                continue
            cands = [st[2] for st in blk['s'] if st[0] == 'assign' and st[1]['l'] == 0 and not st[1]['p']]
            t = blk['t']
            calls0 = t[0] == 'call' and t[1]['dest']['l'] == 0 and not t[1]['dest']['p']
            for rv in cands:
                nl += 1
                o = rv[1] if rv[0] == 'use' else None
                rs = F.trace(q, o, deep=True) if o is not None else []
                lits = F.operand_literals(q, o) if o is not None else []
                if any(r[0] == 'param' and r[1] in lim for r in rs) or (lits and all(v == ('int', 0) for v in lits)):
                    okl += 1
                else:
                    res.violate('INGEST', 'fn=%s;limit-lowered' % q, 'the line-length limit used while wrapping no longer includes the configured --max-line-length: lines that are '
                                'merely passed through (commit messages, program output) are cut although they are shorter than the limit the user set', where=mir['span']['at'])
            if calls0:
                nl += 1
                rs = [x for a in t[1]['args'] for x in F.trace(q, a, deep=True)]
                if any(r[0] == 'param' and r[1] in lim for r in rs):
                    okl += 1
                else:
                    res.violate('INGEST', 'fn=%s;limit-lowered' % q, 'the line-length limit used while wrapping no longer includes the configured --max-line-length: lines that are '
                                'merely passed through (commit messages, program output) are cut although they are shorter than the limit the user set', where=F.span_of_call(t[1]))
    n += nl
    ok += okl
    res.rule('C04.INGEST', n, 3, 'writes to raw_line / line inside the ingest functions %s' % sorted(f.split('::')[-1] for f in fns), discharged=ok, samples=samples)


def run(F, tier, res):
    from .. import extract
    _, h, _ = extract.facts_path()
    modes = ['N', 'H', 'P'] if tier == 'quick' else ['N', 'H', 'R', 'P']
    R = E.runs(F, h, modes)
    res.assumptions += E.ASSUMPTIONS + ['the raw-line formatter (hyperlinks on a tty) is the identity otherwise: not decided',
                                        'pass-through is analysed for calling process = None']
    res.not_decided += ['that CR removal / truncation / lossy decoding compute the right bytes', 'commit-hash hyperlinks added to raw lines on a tty']
    E.add_e1(res, {'P': R['P']}, {'PASS'}, 'C04')
    E.add_e1(res, {m: r for m, r in R.items() if m != 'P'}, {'DECLINE-MUT', 'DECLINE-CONSUME'}, 'C04')
    P = R['P']
    # pass-through text is interleaved correctly with rendered sections: the fall-through writer never writes while rendered or
    # buffered lines of an earlier construct are still pending (ORD-W at the pass-through writer, all line classes, modes N/H)
    claimers = set(P['summary']['pt_claimers'])
    E.add_e1(res, {m: r for m, r in R.items() if m != 'P'}, {'ORD-W'}, 'C04',
             fn_filter=lambda v: v['fn'] in claimers or any(v['fn'].endswith('::' + c.split('::')[-1]) for c in claimers))
    res.rule('C04.PASS', P['summary']['pt_checked'], 20, 'claimed lines in pass-through mode from %d line-start states; each is one raw-line write by the fall-through handler (claimers: %s)' % (
        P['summary']['loop_head_states'], [c.split('::')[-1] for c in P['summary']['pt_claimers']]), samples=P['loophead'][:5])
    if len(P['summary']['pt_claimers']) != 1:
        res.violate('PASS', 'claimers=%d' % len(P['summary']['pt_claimers']), 'a line without any marker is claimed by handlers other than the single fall-through writer: %s' % P['summary']['pt_claimers'])
    n_decl = sum(v for k, v in R['N']['handler_exits'].items() if k.endswith('|False'))
    res.rule('C04.DECLINE-MUT', n_decl, 1000, 'handler exits Ok(false) (mode N); none may have written line/raw_line')
    # ingest fn: by signature
    ing = [p for p, b in F.fn_bodies.items() if b['mir']['arg_count'] == 2 and 'StateMachine' in b['mir']['locals'][1] and '[u8]' in b['mir']['locals'][2]]
    # several functions may have that signature after an extract-method refactoring: the entry is the one consume calls
    if len(ing) > 1:
        cons = [q for q in F.fn_bodies if q.endswith('::consume') and 'StateMachine' in q]
        called = {callee_of(c) for q in cons for _, c in F.calls(q)} | {(c.get('resolved') or '') for q in cons for _, c in F.calls(q)}
        prim = [q for q in ing if q in called]
        ing = prim if len(prim) == 1 else ing
    ingest_rule(F, res, ing[0] if len(ing) == 1 else None)
    E.evidence(res, R)
    return res
