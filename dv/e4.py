"""E4 — hash-iteration-order lint: every iteration over a randomly seeded std HashMap/HashSet is classified by what
consumes the elements; order-sensitive consumers make the program's behaviour depend on the per-process hash seed."""
import re
from .facts import callee_of, callee_full, reach

ITER_START = re.compile(r'::(iter|keys|values|into_iter|drain|iter_mut|values_mut|into_keys|into_values)$')
ADAPTORS = ('::map', '::filter', '::filter_map', '::cloned', '::copied', '::enumerate', '::rev', '::chain', '::zip', '::skip', '::take',
            '::peekable', '::flat_map', '::flatten', '::inspect', '::into_iter', '::by_ref', '::take_while', '::skip_while', '::map_while')
INSENSITIVE = ('::any', '::all', '::count', '::sum', '::product', '::max', '::min', '::contains', '::is_empty', '::len')
SENSITIVE = ('::next', '::find', '::find_map', '::position', '::min_by_key', '::max_by_key', '::min_by', '::max_by', '::last', '::nth',
             '::fold', '::for_each', '::join', '::try_for_each', '::try_fold', '::reduce', '::unzip', '::partition')
HASHY_T = ('HashMap<', 'HashSet<', 'BTreeMap<', 'BTreeSet<', 'HashMap::<', 'HashSet::<')
ORDERED_T = ('std::vec::Vec<', 'std::collections::VecDeque<', 'std::string::String', 'dyn std::io::Write', 'std::collections::LinkedList<')


def _self_ty(full):
    """the Self type of a resolved method path"""
    m = re.match(r'^<(.*?) as ', full)
    if m:
        return m.group(1)
    return full.split('::<')[0] if '::<' in full else full


def is_hash_iter_start(c):
    r = callee_of(c)
    if not ITER_START.search(r):
        return False
    full = callee_full(c)
    st = _self_ty(full)
    if r.startswith('std::collections::HashMap::') or r.startswith('std::collections::HashSet::') or \
            r.startswith('std::collections::hash_map::HashMap::') or r.startswith('std::collections::hash_set::HashSet::'):
        return True
    if r.endswith('IntoIterator>::into_iter') and re.match(r'^&?(\'\w+ )?(mut )?std::collections::(hash_map::|hash_set::)?Hash(Map|Set)<', st.lstrip('&').strip()) :
        return True
    if r.endswith('IntoIterator>::into_iter') and re.match(r"^(&('\w+ )?(mut )?)?std::collections::Hash(Map|Set)<", st):
        return True
    return False


def analyse(F, roots=None):
    """returns (sites, findings): every hash iteration start with its classification"""
    bodies = F.reachable_from(roots) if roots else set(F.fn_bodies)
    sites = []
    for p in sorted(bodies):
        blocks = F.blocks(p)
        S = F.cfg(p)
        mir = F.bodies[p]['mir']
        for i, c in F.calls(p):
            if not is_hash_iter_start(c):
                continue
            site = {'fn': p, 'bb': i, 'callee': callee_of(c), 'recv': _self_ty(callee_full(c))[:90], 'where': F.span_of_call(c)}
            # follow the iterator value
            cur_local = c['dest']['l'] if not c['dest']['p'] else None
            cur_bb = c['target']
            verdict, why = None, ''
            hops = 0
            while cur_local is not None and cur_bb is not None and hops < 40:
                hops += 1
                blk = blocks[cur_bb]
                # moves / reborrows of the iterator
                for st in blk['s']:
                    if st[0] == 'assign' and not st[1]['p']:
                        rv = st[2]
                        src = None
                        if rv[0] == 'use':
                            pl = rv[1].get('move') or rv[1].get('copy')
                            src = pl['l'] if pl and not pl['p'] else None
                        elif rv[0] == 'ref':
                            src = rv[2]['l'] if all(pr[0] == 'deref' for pr in rv[2]['p']) else None
                        if src == cur_local or (isinstance(cur_local, set) and src in cur_local):
                            cur_local = st[1]['l']
                t = blk['t']
                if t[0] == 'call':
                    cc = t[1]
                    r = callee_of(cc)
                    argls = [(a.get('move') or a.get('copy') or {}).get('l') for a in cc['args']]
                    if cur_local in argls:
                        pos = argls.index(cur_local)
                        if r.endswith('Iterator>::next') or r.endswith('::next'):
                            # a `for` loop (or manual next): classify the loop body
                            verdict, why = _classify_loop(F, p, cur_bb, cc)
                            break
                        if r.endswith(ADAPTORS):
                            cur_local = cc['dest']['l'] if not cc['dest']['p'] else None
                            cur_bb = cc['target']
                            continue
                        if r.endswith('::collect') or r.endswith('FromIterator>::from_iter'):
                            dty = cc.get('dest_ty', '')
                            if any(h in dty for h in HASHY_T) and not dty.startswith(('std::vec::Vec', 'std::string::String')):
                                verdict, why = 'insensitive', 'collected into ' + dty[:60]
                            elif _sorted_immediately(F, p, cc):
                                verdict, why = 'insensitive', 'collected into a Vec that is sorted before any other use'
                            else:
                                verdict, why = 'SENSITIVE', 'collected into ordered ' + dty[:60]
                            break
                        if r.endswith('::extend') and pos >= 1:
                            rty = _self_ty(callee_full(cc))
                            if any(h in rty for h in HASHY_T):
                                verdict, why = 'insensitive', 'extends ' + rty[:60]
                            else:
                                verdict, why = 'SENSITIVE', 'extends ordered ' + rty[:60]
                            break
                        if r.endswith(INSENSITIVE):
                            verdict, why = 'insensitive', r.split('::')[-1]
                            break
                        if r.endswith(SENSITIVE):
                            verdict, why = 'SENSITIVE', 'result of %s depends on iteration order (ties / first match / accumulation order)' % r.split('::')[-1]
                            break
                        verdict, why = 'SENSITIVE', 'iterator escapes into %s' % r
                        break
                    cur_bb = cc['target']
                    continue
                ss = S.get(cur_bb, [])
                if len(ss) == 1:
                    cur_bb = ss[0]
                    continue
                break
            if verdict is None:
                verdict, why = 'unknown', 'could not follow the iterator value'
            site['verdict'] = verdict
            site['why'] = why
            sites.append(site)
    return sites


def _sorted_immediately(F, p, collect_call):
    """the collected Vec's first use (through deref/reborrow) is a sort"""
    blocks = F.blocks(p)
    S = F.cfg(p)
    if collect_call['dest']['p']:
        return False
    holders = {collect_call['dest']['l']}
    bb = collect_call['target']
    for _ in range(30):
        if bb is None:
            return False
        blk = blocks[bb]
        for st in blk['s']:
            if st[0] == 'assign' and not st[1]['p']:
                rv = st[2]
                src = None
                if rv[0] == 'use':
                    pl = rv[1].get('move') or rv[1].get('copy')
                    src = pl['l'] if pl else None
                elif rv[0] == 'ref':
                    src = rv[2]['l']
                if src in holders:
                    holders.add(st[1]['l'])
        t = blk['t']
        if t[0] == 'call':
            cc = t[1]
            r = callee_of(cc)
            uses = any(((a.get('move') or a.get('copy') or {}).get('l')) in holders for a in cc['args'])
            if uses:
                if r.endswith(('::deref', '::deref_mut', '::as_mut_slice', '::as_mut')):
                    if not cc['dest']['p']:
                        holders.add(cc['dest']['l'])
                elif re.search(r'::sort(_unstable)?(_by(_key|_cached_key)?)?$', r):
                    return True
                else:
                    return False
            bb = cc['target']
            continue
        ss = S.get(bb, [])
        if len(ss) != 1:
            return False
        bb = ss[0]
    return False


def _classify_loop(F, p, head_bb, next_call):
    blocks = F.blocks(p)
    S = F.cfg(p)
    mir = F.bodies[p]['mir']
    # blocks that can reach the head
    R = {}
    for n, ss in S.items():
        for x in ss:
            R.setdefault(x, set()).add(n)
    can_reach_head = reach(R, head_bb)
    tgt = next_call['target']
    # the switch on the Option discriminant: Some edge / None edge
    sw = tgt
    guard = 0
    while sw is not None and blocks[sw]['t'][0] != 'switch' and guard < 4:
        ss = S.get(sw, [])
        sw = ss[0] if len(ss) == 1 else None
        guard += 1
    if sw is None:
        return 'unknown', 'loop shape not recognised'
    succs = set(S.get(sw, []))
    body_entry = [x for x in succs if x in can_reach_head]
    body = reach(S, body_entry) & can_reach_head
    body.discard(head_bb) if False else None
    # early exits: edges from body blocks to blocks that cannot reach the head, other than the head's own exhaustion edge
    rets = {i for i, b_ in enumerate(blocks) if not b_['cleanup'] and b_['t'][0] == 'return'}
    reaches_ret = reach(R, list(rets)) if rets else set()
    early = []
    for b in body:
        if b in (head_bb, sw, tgt):
            continue
        for x in S.get(b, []):
            if x not in can_reach_head and x in reaches_ret:
                early.append((b, x))
    reasons = []
    real_early = []
    for (b, x) in early:
        # `?` desugaring exits and diverging calls are not element searches
        t = blocks[b]['t']
        if t[0] == 'call' and 'from_residual' in callee_of(t[1]):
            continue
        prevs = [pb for pb in body if b in S.get(pb, [])]
        real_early.append((b, x))
    if real_early:
        reasons.append('the loop is left early (return/break) depending on an element: first match wins')
    # ordered sinks defined outside the loop
    defs = F.local_defs(p)
    nargs = mir['arg_count']
    for b in sorted(body):
        t = blocks[b]['t']
        if t[0] != 'call':
            continue
        cc = t[1]
        r = callee_of(cc)
        if r.endswith(('new_display', 'new_debug')) or 'fmt::Arguments' in r:
            continue
        for a in cc['args']:
            pl = a.get('move') or a.get('copy')
            if not pl:
                continue
            ty = mir['locals'][pl['l']]
            if not ty.startswith('&mut '):
                continue
            inner = re.sub(r"^&('\w+ )?mut ", '', ty)
            if not (inner.startswith(ORDERED_T) or inner.startswith('dyn std::io::Write')):
                continue
            # where does the borrowed thing live? follow reborrows back to the base local
            outside = False
            base = pl['l']
            for _ in range(8):
                ds = defs.get(base, [])
                nxt = None
                for (dbb, kind, payload) in ds:
                    if kind == 'assign' and payload[0] in ('ref', 'rawptr'):
                        nxt = (payload[2] if payload[0] == 'ref' else payload[1])['l']
                    elif kind == 'assign' and payload[0] == 'use':
                        q = payload[1].get('move') or payload[1].get('copy')
                        if q:
                            nxt = q['l']
                if nxt is None or nxt == base:
                    break
                base = nxt
            if 1 <= base <= nargs:
                outside = True
            else:
                dbs = [d[0] for d in defs.get(base, [])]
                if not dbs or any(d not in body for d in dbs):
                    outside = True
            if outside:
                reasons.append('passes %s (defined outside the loop) to %s: elements are appended in hash order' % (ty[:50], r.split('::')[-1]))
    if reasons:
        return 'SENSITIVE', '; '.join(sorted(set(reasons)))
    return 'insensitive', 'loop body only feeds order-insensitive sinks'
