#!/usr/bin/env python3
"""tools/mut.py FILE 'old' 'new' PROP [PROP...]  -- apply a one-off textual mutation to /repo, run checks, revert.
   tools/mut.py --patch file.diff PROP...       -- same with a patch file.
Used only to validate the checkers (never part of a check)."""
import os, subprocess, sys, os
args = sys.argv[1:]
repo = os.environ.get('DV_REPO', '/repo')
try:
    if args[0] == '--patch':
        subprocess.check_call(['git', '-C', repo, 'apply', args[1]])
        props = args[2:]
    else:
        f, old, new = args[0], args[1], args[2]
        props = args[3:]
        p = os.path.join(repo, f)
        s = open(p).read()
        assert s.count(old) >= 1, 'pattern not found'
        s = s.replace(old, new, 1)
        open(p, 'w').write(s)
    for pr in props:
        r = subprocess.run(['/verif/check', pr] + (['--tier', os.environ['TIER']] if os.environ.get('TIER') else []), stdout=subprocess.PIPE, stderr=subprocess.STDOUT, text=True)
        print(r.stdout[-3000:])
        print('rc=%d' % r.returncode)
finally:
    subprocess.check_call(['git', '-C', repo, 'checkout', '--', '.'])
