#!/bin/sh
# run every check's quick (or $1) tier; print one line per property
cd "$(dirname "$0")/.." || exit 2
tier=${1:-quick}
rc=0
for p in C01 C02 C03 C04 C05 C06 C07 C08 C09 C10 C11 C12 C13 C14 C15 C16 C17 C18 C19 C20; do
  [ -f dv/props/$(echo $p | tr 'C' 'c').py ] || continue
  out=$(./check $p --tier $tier 2>&1); r=$?
  echo "$out" | tail -1 | sed "s/^/[rc=$r] /"
  echo "$out" | grep -E "^VIOLATION|^KNOWN-FINDING" | head -5
  [ $r -ne 0 ] && rc=1
done
exit $rc
