"""C10 — file sections render independently of their neighbours; output is deterministic (structural part)."""
from . import _e1common as E
from .. import rules as Ru
from .. import e4
from ..facts import callee_of, callee_full

EXPLANATION = (
    "Three parts. BOUNDARY (E1, modes N/H): at every write reached from the section-boundary code (the handler that resets the per-file "
    "bookkeeping on a `diff ` line, the pending-header writer it shares with the commit-line handler, and the end-of-input tail) nothing "
    "rendered or buffered from the previous section may be overtaken (ORD-W/ORD-B), and at end of input nothing is held back (EOF incl. a "
    "pending mode header). RESET (MIR rule): in the handler that resets `handled_…_file_pair`, every per-file field named by the property is "
    "assigned on every path through that reset. DETERMINISM (E4 + who-may-call): every iteration over a std HashMap/HashSet reachable from "
    "main is classified by its consumer; order-sensitive consumers (push to an ordered collection defined outside the loop, first-match exit, "
    "min_by_key/find/next/fold..., collect into Vec without immediate sort) are violations; no other entropy source (rand, clocks) is called "
    "on the rendering path.")

SM = 'delta::StateMachine'
PER_FILE_FIELDS = ['minus_file', 'plus_file', 'minus_file_event', 'plus_file_event', 'current_file_pair',
                   'handled_diff_header_header_line_file_pair', 'diff_line', 'state']


def _must_assign(F, fn, fld, depth):
    """does local function fn (a method of the state machine) assign field fld on every path from entry to return?"""
    if not fn or fn not in F.fn_bodies or depth > 2:
        return False
    mir = F.bodies[fn]['mir']
    if not (mir['arg_count'] >= 1 and 'StateMachine' in mir['locals'][1]):
        return False
    wbs = [w[0] for w in Ru.field_writes(F, fn, SM, fld) if any(f == fld for _, f in w[1])]
    wbs += [i for i, c in F.calls(fn) if callee_of(c) != fn and _must_assign(F, callee_of(c) if callee_of(c) in F.fn_bodies else (c.get('resolved') or ''), fld, depth + 1)]
    return bool(wbs) and not Ru.must_pass(F, fn, 0, set(wbs))


def reset_rule(F, res, resetters, prefix, fields):
    # ---- RESET
    n = ok = 0
    for (p, rbb) in resetters:
        for fld in fields:
            n += 1
            wbs = [w[0] for w in Ru.field_writes(F, p, SM, fld) if any(f == fld for _, f in w[1])]
            # a call to a local method that assigns the field on every one of its paths is a write of the field (setter helpers)
            wbs += [i for i, c in F.calls(p) if _must_assign(F, callee_of(c) if callee_of(c) in F.fn_bodies else (c.get('resolved') or ''), fld, 0)]
            S = F.cfg(p)
            from ..facts import reach
            before = rbb in reach(S, 0, avoid=set(wbs) - {rbb}) if rbb not in wbs else False
            after = bool(Ru.must_pass(F, p, S.get(rbb, []), set(wbs) - {rbb})) if rbb not in wbs else False
            if rbb in wbs or not (before and after):
                ok += 1
            else:
                res.violate('RESET', 'fn=%s;field=%s' % (p, fld),
                            'a path through the per-file reset on a `diff ` line leaves `%s` as it was for the previous file section' % fld,
                            where=F.bodies[p]['mir']['span']['at'])
    res.rule(prefix + '.RESET', n, len(fields), 'per-file fields x reset handlers: each assigned on every path through the reset', discharged=ok, samples=list(fields))


def reset_order_rule(F, res, resetters, boundary, prefix):
    # ---- RESET-ORDER: whatever flushes the previous section's pending output must run before the per-file fields it reads
    # are overwritten with the new section's values
    def reads_field(fn, fld, depth=0, seen=None):
        seen = seen if seen is not None else set()
        if fn in seen or fn not in F.fn_bodies or depth > 4:
            return False
        seen.add(fn)
        for blk in F.blocks(fn):
            if blk['cleanup']:
                continue
            places = []
            for st in blk['s']:
                if st[0] == 'assign':
                    rv = st[2]
                    for x in rv[1:]:
                        if isinstance(x, dict):
                            places.append(x.get('copy') or x.get('move') or (x if 'l' in x else None))
                        elif isinstance(x, list):
                            for y in x:
                                if isinstance(y, dict):
                                    places.append(y.get('copy') or y.get('move') or (y if 'l' in y else None))
            t = blk['t']
            if t[0] == 'call':
                for a in t[1]['args']:
                    places.append(a.get('copy') or a.get('move'))
            if t[0] == 'switch':
                places.append(t[1].get('copy') or t[1].get('move'))
            for pl in places:
                if pl and any(pr[0] == 'field' and pr[2] == SM and pr[3] == fld for pr in pl['p']):
                    return True
        for i, c in F.calls(fn):
            cal = callee_of(c)
            if cal in F.fn_bodies and any('StateMachine' in F.bodies[cal]['mir']['locals'][k] for k in range(1, F.bodies[cal]['mir']['arg_count'] + 1)):
                if reads_field(cal, fld, depth + 1, seen):
                    return True
        return False
    no = oko = 0
    from ..facts import reach as _reach
    for (p, rbb) in resetters:
        S = F.cfg(p)
        for fld in PER_FILE_FIELDS:
            if fld == 'state':
                continue
            wbs = [w[0] for w in Ru.field_writes(F, p, SM, fld) if any(f == fld for _, f in w[1])]
            for i, c in F.calls(p):
                cal = callee_of(c)
                if cal not in F.fn_bodies or cal not in boundary or cal == p:
                    continue
                if not any('StateMachine' in F.bodies[cal]['mir']['locals'][k] for k in range(1, F.bodies[cal]['mir']['arg_count'] + 1)):
                    continue
                if not reads_field(cal, fld):
                    continue
                # only flushers: calls that can write output
                if cal not in F.reverse_reaching({q for q in F.fn_bodies if q.endswith('write_generic_diff_header_header_line')}):
                    continue
                no += 1
                early = [w for w in wbs if i in _reach(S, S.get(w, []))]
                if early:
                    res.violate('RESET-ORDER', 'fn=%s;field=%s;before=%s' % (p, fld, cal.split('::')[-1]),
                                '`%s` is overwritten with the new section\'s value before %s has flushed the previous section\'s pending output, which reads it: '
                                'the previous section is reported with the next section\'s data' % (fld, cal.split('::')[-1]), where=F.span_of_call(c))
                else:
                    oko += 1
    res.rule(prefix + '.RESET-ORDER', no, 3, 'per-file fields read by the pending-output flush called from the reset handler; none overwritten before that call', discharged=oko)


def find_resetters(F):
    resetters = []
    for p in F.fn_bodies:
        for (bb, chain, kind, payload) in Ru.field_writes(F, p, SM, 'handled_diff_header_header_line_file_pair'):
            if kind != 'assign':
                continue
            rv = payload[2]
            is_none = rv[0] == 'agg' and rv[1][0] == 'adt' and rv[1][3] == 'None'
            if rv[0] == 'use':
                is_none = any(r[0] == 'agg' and r[1][0] == 'adt' and r[1][3] == 'None' for r in F.trace(p, rv[1]))
            if is_none:
                resetters.append((p, bb))
    boundary = set()
    for p, _ in resetters:
        boundary |= F.reachable_from([p])
    return resetters, boundary


def run(F, tier, res):
    from .. import extract
    _, h, _ = extract.facts_path()
    modes = ['N', 'H'] if tier == 'quick' else ['N', 'H', 'R', 'C']
    R = E.runs(F, h, modes)
    res.assumptions += E.ASSUMPTIONS + ['same input, options and environment (incl. process table and clock-dependent relative timestamps in blame)']
    res.not_decided += ['the concatenation equation stdout(A++B) == stdout(A)++stdout(B) itself (value-level)',
                        'line-number counters and syntax state across sections (C05/C15 cover their re-initialisation)']
    # ---- boundary functions: the per-file reset handler and everything it calls
    resetters = []
    for p in F.fn_bodies:
        for (bb, chain, kind, payload) in Ru.field_writes(F, p, SM, 'handled_diff_header_header_line_file_pair'):
            if kind != 'assign':
                continue
            rv = payload[2]
            is_none = rv[0] == 'agg' and rv[1][0] == 'adt' and rv[1][3] == 'None'
            if rv[0] == 'use':
                is_none = any(r[0] == 'agg' and r[1][0] == 'adt' and r[1][3] == 'None' for r in F.trace(p, rv[1]))
            if is_none:
                resetters.append((p, bb))
    if not resetters:
        res.anchor_missing('per-file reset (assignment handled_diff_header_header_line_file_pair = None)')
        return res
    boundary = set()
    for p, _ in resetters:
        boundary |= F.reachable_from([p])
    consume = R['N']['consume']

    def is_boundary(v):
        if v['rule'] == 'EOF':
            return True
        if '<eof>' in v['classes']:
            return True
        return v['fn'] in boundary or any(f in {p for p, _ in resetters} for f in v['frames'])
    E.add_e1(res, R, {'ORD-W', 'ORD-B', 'EOF', 'DROP'}, 'C10', fn_filter=is_boundary)
    # the highlighter may not be replaced while lines of the previous section are still buffered (they would be coloured by the next file's language)
    E.add_e1(res, R, {'HL-SWAP'}, 'C10')
    nb = sum(1 for k in R['N']['event_sites'].get('DIRECT_W', []) if any(b in k for b in boundary))
    res.rule('C10.BOUNDARY', nb + R['N']['summary']['exit_states'], 8,
             'direct-write sites inside the section-boundary functions (%d) + abstract end-of-input states (%d)' % (nb, R['N']['summary']['exit_states']),
             samples=sorted(x.split('::')[-1] for x in boundary)[:6])
    reset_rule(F, res, resetters, 'C10', PER_FILE_FIELDS)
    reset_order_rule(F, res, resetters, boundary, 'C10')
    # ---- FRESH-HUNK: per-hunk line-number state is overwritten from the hunk header, never accumulated from the previous hunk
    # (sections without a `diff ` line - plain `diff -u`, hand-made patches - see no per-file reset at all)
    ih = [q for q in F.fn_bodies if q.endswith('::initialize_hunk')]
    nf = okf = 0
    if not ih:
        res.anchor_missing('LineNumbersData::initialize_hunk')
    for q in ih:
        for w in Ru.field_writes(F, q, None, None):
            if w[2] not in ('assign', 'call') or not w[1]:
                continue
            fld = w[1][0][1]
            if w[1][0][0] is None or 'LineNumbersData' not in str(w[1][0][0]):
                continue
            nf += 1
            if w[2] == 'assign':
                ops = [x for x in w[3][2][1:] if isinstance(x, dict)]
            else:
                ops = list(w[3]['args'])
            selfdep = False
            for o in ops:
                for r in F.trace(q, o, deep=True):
                    if r[0] in ('param', 'local') and r[0] == 'param' and r[1] == 1 and r[2] and r[2][0] == fld:
                        selfdep = True
            if selfdep:
                res.violate('FRESH-HUNK', 'fn=%s;field=%s' % (q, fld), 'the per-hunk field `%s` is computed from its own previous value: line-number state of an earlier hunk / file section '
                            'leaks into later ones (nothing resets it for sections that do not start with a `diff ` line)' % fld, where=F.bodies[q]['mir']['span']['at'])
            else:
                okf += 1
    res.rule('C10.FRESH-HUNK', nf, 2, 'field writes in LineNumbersData::initialize_hunk: none depends on the field\'s previous value', discharged=okf)
    # ---- DETERMINISM
    mains = [p for p in F.fn_bodies if p == 'main']
    roots = mains or None
    sites = e4.analyse(F, roots)
    bad = 0
    for s in sites:
        if s['verdict'] != 'insensitive':
            bad += 1
            res.violate('E4', 'fn=%s;iter=%s;verdict=%s' % (s['fn'], s['callee'].split('::')[-1], s['verdict']),
                        'iteration over %s in hash order reaches an order-sensitive consumer: %s' % (s['recv'], s['why']), where=s['where'])
    res.rule('C10.E4', len(sites), 0, 'iterations over std HashMap/HashSet reachable from main, each classified by its consumer',
             discharged=len(sites) - bad, samples=['%s: %s (%s)' % (s['fn'].split('::')[-1], s['verdict'], s['why'][:60]) for s in sites])
    # entropy
    reach_main = F.reachable_from(mains) if mains else set(F.fn_bodies)
    ent = []
    n_calls = 0
    for p in sorted(reach_main):
        for i, c in F.calls(p):
            n_calls += 1
            r = callee_of(c)
            if r.startswith('rand::') or '::thread_rng' in r or 'RandomState::new' in r and False:
                ent.append((p, r, F.span_of_call(c)))
            if r.endswith(('SystemTime::now', 'Instant::now')):
                ent.append((p, r, F.span_of_call(c)))
    render = F.reachable_from([consume]) if consume else set()
    for (p, r, w) in ent:
        if p in render:
            res.violate('ENTROPY', 'fn=%s;callee=%s' % (p, r), 'a clock / random source is read on the rendering path', where=w)
    res.rule('C10.ENTROPY', n_calls, 1000, 'calls reachable from main scanned for rand / clock sources on the rendering path (found off-path: %d)' % len(ent))
    E.evidence(res, R)
    return res
