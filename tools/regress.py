#!/usr/bin/env python3
"""tools/regress.py [name-substring]: apply each patch in regress/ and seeded/*/patch.diff to /repo, run the checks listed for it,
   expect a VIOLATION (exit 1), revert. Validates that the checkers fire. Never part of a registered check."""
import json, os, subprocess, sys, glob
V = os.path.dirname(os.path.dirname(os.path.abspath(__file__)))
EXPECT = json.load(open(os.path.join(V, 'regress', 'expect.json')))
sel = sys.argv[1] if len(sys.argv) > 1 else ''
REPO = os.environ.get('DV_REPO', '/repo')   # a scratch worktree may be used so that /repo stays free
ok = True
items = []
for name, props in EXPECT.items():
    items.append((name, os.path.join(V, 'regress', name + '.diff'), props))
for d in sorted(glob.glob(os.path.join(V, 'seeded', '*'))):
    mp = os.path.join(d, 'meta.json')
    if os.path.exists(mp):
        meta = json.load(open(mp))
        items.append(('seeded/' + os.path.basename(d), os.path.join(d, 'patch.diff'), meta.get('detected_by', [])))
for name, patch, props in items:
    if sel not in name:
        continue
    if subprocess.call(['git', '-C', REPO, 'apply', patch]) != 0:
        print('%-45s ---- DOES-NOT-APPLY (regenerate the patch against the current HEAD)' % name)
        ok = False
        continue
    try:
        for pr in props:
            r = subprocess.run([os.path.join(V, 'check'), pr], stdout=subprocess.PIPE, stderr=subprocess.STDOUT, text=True)
            viol = [l for l in r.stdout.splitlines() if l.startswith('VIOLATION')]
            rules = [l.strip() for l in r.stdout.splitlines() if l.strip().startswith(pr + ' [')]
            status = 'DETECTED' if r.returncode == 1 and viol else 'MISSED'
            if status == 'MISSED':
                ok = False
            print('%-45s %-4s %s  %s' % (name, pr, status, '; '.join(x[:90] for x in rules[:3])))
    finally:
        subprocess.check_call(['git', '-C', REPO, 'checkout', '--', '.'])
sys.exit(0 if ok else 1)
