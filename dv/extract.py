"""E0 front end: run the rustc_private fact extractor on /repo's current working tree.

The extractor is injected with RUSTC_WORKSPACE_WRAPPER under `cargo +nightly check --offline`.
Facts are cached by a content hash of everything the build reads from /repo; a missing or stale
fact file is a hard failure (never a pass).
"""
import fcntl
import hashlib
import json
import os
import subprocess
import sys
import time
import uuid

VERIF = os.path.dirname(os.path.dirname(os.path.abspath(__file__)))
REPO = os.environ.get('DV_REPO', '/repo')
CACHE = os.path.join(VERIF, '.cache')
DRIVER_DIR = os.path.join(VERIF, 'driver')
DRIVER = os.path.join(DRIVER_DIR, 'target', 'release', 'dv-driver')


class ExtractionError(Exception):
    pass


def _tree_hash(repo):
    h = hashlib.sha256()
    roots = ['src', '.cargo']
    files = ['Cargo.toml', 'Cargo.lock', 'build.rs', 'rust-toolchain', 'rust-toolchain.toml']
    todo = []
    for r in roots:
        base = os.path.join(repo, r)
        for dp, dn, fn in os.walk(base):
            dn.sort()
            for f in sorted(fn):
                todo.append(os.path.join(dp, f))
    for f in files:
        p = os.path.join(repo, f)
        if os.path.exists(p):
            todo.append(p)
    for p in todo:
        h.update(os.path.relpath(p, repo).encode())
        h.update(b'\0')
        with open(p, 'rb') as fh:
            h.update(fh.read())
        h.update(b'\0')
    # the driver itself is part of the key: new driver => new facts
    with open(os.path.join(DRIVER_DIR, 'src', 'main.rs'), 'rb') as fh:
        h.update(fh.read())
    return h.hexdigest()[:20]


def _sysroot():
    return subprocess.check_output(['rustc', '+nightly', '--print', 'sysroot'], text=True).strip()


def build_driver():
    env = dict(os.environ, CARGO_NET_OFFLINE='true')
    r = subprocess.run(['cargo', 'build', '--release', '--offline'], cwd=DRIVER_DIR, env=env,
                       stdout=subprocess.PIPE, stderr=subprocess.STDOUT, text=True)
    if r.returncode != 0 or not os.path.exists(DRIVER):
        raise ExtractionError('driver build failed:\n' + r.stdout[-4000:])


def _run_driver(manifest_dir, target_dir, out_prefix, pkg_fingerprint):
    if not os.path.exists(DRIVER):
        build_driver()
    nonce = uuid.uuid4().hex
    env = dict(os.environ)
    env.update({
        'CARGO_NET_OFFLINE': 'true',
        'LD_LIBRARY_PATH': _sysroot() + '/lib' + (':' + env['LD_LIBRARY_PATH'] if env.get('LD_LIBRARY_PATH') else ''),
        'RUSTFLAGS': '-Zmir-opt-level=0 -Awarnings',
        'RUSTC_WORKSPACE_WRAPPER': DRIVER,
        'CARGO_TARGET_DIR': target_dir,
        'E0_OUT': out_prefix,
        'E0_NONCE': nonce,
    })
    env.pop('RUSTC_WRAPPER', None)
    # cargo's freshness cache would skip the wrapper: drop the member's fingerprints
    fpdir = os.path.join(target_dir, 'debug', '.fingerprint')
    if os.path.isdir(fpdir):
        for d in os.listdir(fpdir):
            if d.startswith(pkg_fingerprint):
                subprocess.run(['rm', '-rf', os.path.join(fpdir, d)])
    r = subprocess.run(['cargo', '+nightly', 'check', '--offline', '--bins'], cwd=manifest_dir, env=env,
                       stdout=subprocess.PIPE, stderr=subprocess.STDOUT, text=True)
    return r, nonce


def facts_path(repo=REPO):
    """Return the path of a fresh fact file for repo's current working tree (extracting if needed)."""
    os.makedirs(CACHE, exist_ok=True)
    h = _tree_hash(repo)
    final = os.path.join(CACHE, 'facts-%s.json' % h)
    if os.path.exists(final):
        try:
            os.utime(final, None)
        except OSError:
            pass
        return final, h, 0.0
    lock = open(os.path.join(CACHE, 'extract.lock'), 'w')
    fcntl.flock(lock, fcntl.LOCK_EX)
    try:
        if os.path.exists(final):
            try:
                os.utime(final, None)      # least-recently-used, not first-in, decides what is dropped below
            except OSError:
                pass
            return final, h, 0.0
        t0 = time.time()
        prefix = os.path.join(CACHE, 'tmp-%s' % h)
        produced = prefix + '.delta.json'
        if os.path.exists(produced):
            os.remove(produced)
        r, nonce = _run_driver(repo, os.path.join(CACHE, 'target'), prefix, 'git-delta-')
        if r.returncode != 0:
            raise ExtractionError('cargo +nightly check of %s failed (the tree must compile):\n%s' % (repo, r.stdout[-6000:]))
        if not os.path.exists(produced):
            raise ExtractionError('extractor produced no fact file (wrapper skipped?)\n' + r.stdout[-3000:])
        with open(produced) as fh:
            head = fh.read(400)
        if nonce not in head:
            raise ExtractionError('stale fact file: nonce mismatch')
        os.replace(produced, final)
        # keep the cache small: drop fact files other than the most recently used ones (DV_CACHE_KEEP, default 24: ~17 MB each;
        # several trees are analysed side by side when patches are tried on scratch worktrees)
        keep = max(2, int(os.environ.get('DV_CACHE_KEEP', '24')))
        olds = sorted((f for f in os.listdir(CACHE) if f.startswith('facts-') and f.endswith('.json')),
                      key=lambda f: os.path.getmtime(os.path.join(CACHE, f)))
        for f in olds[:-keep]:
            os.remove(os.path.join(CACHE, f))
            for g in os.listdir(CACHE):
                if g.startswith('e1-' + f[len('facts-'):-len('.json')]):
                    os.remove(os.path.join(CACHE, g))
        return final, h, time.time() - t0
    finally:
        fcntl.flock(lock, fcntl.LOCK_UN)
        lock.close()


def fixture_facts_path():
    fx = os.path.join(VERIF, 'fixtures')
    os.makedirs(CACHE, exist_ok=True)
    hh = hashlib.sha256()
    for dp, dn, fn in os.walk(os.path.join(fx, 'src')):
        for f in sorted(fn):
            hh.update(open(os.path.join(dp, f), 'rb').read())
    hh.update(open(os.path.join(DRIVER_DIR, 'src', 'main.rs'), 'rb').read())
    h = hh.hexdigest()[:20]
    final = os.path.join(CACHE, 'fixfacts-%s.json' % h)
    if os.path.exists(final):
        return final
    lock = open(os.path.join(CACHE, 'extract.lock'), 'w')
    fcntl.flock(lock, fcntl.LOCK_EX)
    try:
        prefix = os.path.join(CACHE, 'tmpfx-%s' % h)
        produced = prefix + '.dvfixtures.json'
        r, nonce = _run_driver(fx, os.path.join(CACHE, 'target-fixtures'), prefix, 'dvfixtures-')
        if r.returncode != 0 or not os.path.exists(produced):
            raise ExtractionError('fixture extraction failed:\n' + r.stdout[-4000:])
        os.replace(produced, final)
        return final
    finally:
        fcntl.flock(lock, fcntl.LOCK_UN)
        lock.close()


if __name__ == '__main__':
    p, h, dt = facts_path()
    print(p, h, '%.1fs' % dt)
