"""C03 — delta never crashes or hangs (four necessary conditions, decided structurally on the input path)."""
import json
import os
from .. import rules as Ru
from .. import rx, rxsites
from ..facts import callee_of, callee_full, reach

EXPLANATION = (
    "The whole property (no panic, hang or runaway allocation for any bytes and options) needs value ranges and termination arguments that "
    "no static rule in reach gives; four repo-specific necessary conditions are decided on the input path (functions reachable from "
    "delta::delta). P1: every capture group read with unwrap()/index is mandatory in the regex it belongs to (group tree from the regex "
    "literal). P2: no unwrap()/expect() on the Result of a numeric parse. P3: every unsigned subtraction (MIR Assert(Overflow(Sub))) is "
    "discharged by a dominating comparison of its operands, an ends_with / non-emptiness guard for `len() - k`, or is listed in the "
    "hand-proved table (one reason per site); anything else is reported. P4: every explicit abort (panic!, unreachable!, delta_unreachable, "
    "fatal, process::exit) that the abstract interpreter reaches from consume WITHOUT the input-grammar assumptions (all byte streams) must "
    "sit in the hand-triaged table of arms that are infeasible for reasons E1 does not track; new reachable aborts are reported.")

HERE = os.path.dirname(os.path.abspath(__file__))
KEYMAP3, KEYMAP5 = {}, {}


def _load_table(name):
    p = os.path.join(os.path.dirname(HERE), '..', 'assumptions', name)
    p = os.path.normpath(p)
    if os.path.exists(p):
        with open(p) as fh:
            return json.load(fh)
    return {}


KERNELS = ('ansi::', 'edits::', 'align::')     # the escape-sequence kernel and the alignment / annotation kernels: offset bookkeeping over their own token and Element ranges (value-level, not decided; P6 excludes the same kernels)


def p3_sites(F, render):
    out = []
    for p in sorted(render):
        if p.startswith(KERNELS):
            continue
        blocks = F.blocks(p)
        ordn = 0
        for i, b in enumerate(blocks):
            if b['cleanup']:
                continue
            t = b['t']
            if t[0] != 'assert' or not t[1].startswith('Overflow(Sub'):
                continue
            ordn += 1
            # the SubWithOverflow statement in this block
            ops = None
            for st in b['s']:
                if st[0] == 'assign' and st[2][0] == 'binop' and st[2][1].startswith('Sub'):
                    ops = (st[2][2], st[2][3])
            where = t[5].get('callsite') or t[5]['at']
            snippet = ''
            out.append({'fn': p, 'bb': i, 'ord': ordn, 'ops': ops, 'where': where})
    return out


def _roots_sig(F, p, op):
    sig = set()
    for r in F.trace(p, op):
        if r[0] == 'param':
            sig.add(('param', r[1], tuple(r[2])))
        elif r[0] == 'call':
            sig.add(('call', r[1].split('::')[-1], tuple(sorted(str(x) for a in r[4]['args'][:1] for x in [tuple((rr[0], rr[1]) for rr in F.trace(p, a) if rr[0] == 'param')]))))
        elif r[0] == 'const':
            sig.add(('const', r[1]))
    return sig


def discharge(F, site):
    p, bb, ops = site['fn'], site['bb'], site['ops']
    if not ops:
        return None
    a, b = ops
    sa, sb_ = _roots_sig(F, p, a), _roots_sig(F, p, b)
    # D3: saturating / min / max provenance
    for r in F.trace(p, a) + F.trace(p, b):
        if r[0] == 'call' and r[1].endswith(('::min', '::max', '::saturating_sub', '::checked_sub', '::clamp')):
            return 'operand comes from %s' % r[1].split('::')[-1]
    # D1: dominating comparison of the same operands
    for (swb, op, arms, other) in Ru.switches(F, p):
        roots = F.trace(p, op)
        bins = [r for r in roots if r[0] == 'binop' and r[1] in ('Gt', 'Ge', 'Lt', 'Le', 'Eq', 'Ne')]
        if not bins:
            continue
        from .c20 import _find_binop_rvalue
        rv = _find_binop_rvalue(F, p, op)
        if rv is None:
            continue
        l, r_ = _roots_sig(F, p, rv[2]), _roots_sig(F, p, rv[3])
        if not ((l & sa and r_ & sb_) or (l & sb_ and r_ & sa)):
            continue
        swapped = not (l & sa and r_ & sb_)
        opn = rv[1]
        # on which edge is a >= b ?
        tt, ft = Ru.bool_edges(arms, other)
        neg = Ru.negations(F, p, op) % 2 == 1
        if neg:
            tt, ft = ft, tt
        good_edges = []
        if not swapped:     # comparison is `a OP b`; we need an edge on which a >= b
            good_edges = {'Gt': [tt], 'Ge': [tt], 'Lt': [ft], 'Le': [ft], 'Eq': [tt], 'Ne': []}.get(opn, [])
        else:               # comparison is `b OP a`
            good_edges = {'Lt': [tt], 'Le': [tt], 'Gt': [ft], 'Ge': [ft], 'Eq': [tt], 'Ne': []}.get(opn, [])
        for e in good_edges:
            if e is not None and (Ru.edge_dominates(F, p, swb, e, bb) or e == bb):
                return 'dominated by the comparison %s of the same operands' % opn
    # D2: len() - const under ends_with / non-emptiness
    lits = F.operand_literals(p, b)
    if any(r[0] == 'call' and r[1].endswith('::len') for r in F.trace(p, a)) and (lits or any(r[0] == 'call' and r[1].endswith('::len') for r in F.trace(p, b))):
        g = Ru.guarded_by(F, p, bb, lambda rs: any(rr[0] == 'call' and rr[1].endswith(('::ends_with', '::starts_with')) for rr in rs))
        if g:
            return 'len() - k under an ends_with / starts_with guard'
        g = Ru.guarded_by(F, p, bb, lambda rs: any(rr[0] == 'call' and rr[1].endswith('::is_empty') for rr in rs), want_true=False)
        if g:
            return 'len() - k under a non-emptiness guard'
    return None


def _module_key(key):
    """'fn=<module path>::<fn>;rest' -> 'mod=<module path>;rest': a hand-proved argument stays valid when the expression is moved into a
    helper of the same module (extract-method refactorings); closures and impl blocks belong to their module"""
    if not key.startswith('fn='):
        return key
    head, _, rest = key.partition(';')
    path = head[3:]
    import re as _re
    path = _re.sub(r'::\{closure#\d+\}', '', path)
    while '::<impl ' in path:
        a = path.index('::<impl ')
        depth, j = 0, a + 2
        while j < len(path):
            if path[j] == '<':
                depth += 1
            elif path[j] == '>':
                depth -= 1
                if depth == 0:
                    break
            j += 1
        path = path[:a] + path[j + 1:]
    path = _re.sub(r"::<'[a-z_]+>", '', path)
    segs = path.split('::')
    # drop the function name (and a type name in `Type::method`)
    mod = '::'.join(s_ for s_ in segs[:-1] if s_ and not s_[0].isupper())
    return 'mod=%s;%s' % (mod, rest)


def _norm_key(key):
    """drop the roots that only say how a value was carried (through a tuple / struct / Option aggregate): `match (a, b) { (_, Some(i)) => v[i] }`
    and `let i = match b { Some(i) => i, .. }; v[i]` index with the same value"""
    import re as _re
    def _tok(t):
        # positional fields (tuple / Option payload positions) are carrying structure too: param2.0 ~ param2.
        return _re.sub(r'^((?:param\d+|local)\.)[0-9.]*$', r'\1', t)
    return _re.sub(r'\[([^\]]*)\]', lambda m: '[' + ','.join(sorted({_tok(t) for t in m.group(1).split(',') if not t.startswith('agg:')})) + ']', key)


def _table_get(table, key):
    if key in table:
        return table[key]
    mk = _norm_key(_module_key(key))
    for k, v in table.items():
        if _norm_key(_module_key(k)) == mk:
            return v
    return None


def _helper_position(F, roots, POS, depth):
    """the value comes from a local function whose returned value is itself a search / match / length position (followed two levels)"""
    if depth > 2:
        return False
    for rr in roots:
        if rr[0] != 'call':
            continue
        callee = rr[4].get('resolved') or rr[4].get('callee') or ''
        cands = [q for q in (callee, rr[1]) if q in F.fn_bodies]
        for q in cands:
            rets = F.trace(q, {'copy': {'l': 0, 'p': []}}, deep=True)
            if any(x[0] == 'call' and x[1].endswith(POS) for x in rets) or any(x[0] == 'call' and ('Match' in x[1] or 'regex' in x[1]) for x in rets):
                return True
            if _helper_position(F, rets, POS, depth + 1):
                return True
    return False


def _closure_payload_roots(F, q, roots, depth=0):
    """q is a closure and `roots` contains one of its own (non-environment) parameters: when the closure is handed to an Option / Result
    combinator (filter / map / and_then / is_some_and / map_or ...), the parameter is the payload of the receiver, so the receiver's
    provenance in the enclosing function is the parameter's provenance (`s.rfind(c).filter(|&i| ..s[i + 1..]..).map(|i| ..s[..i]..)`)"""
    if '::{closure#' not in q or depth > 2:
        return []
    if not any(rr[0] == 'param' and rr[1] >= 2 for rr in roots):
        return []
    parent = q.rsplit('::{closure#', 1)[0]
    if parent not in F.fn_bodies:
        return []
    out = []
    for i, c in F.calls(parent):
        cal = callee_of(c)
        is_iter = cal.startswith(('std::iter::Iterator::', 'core::iter::Iterator::', 'std::iter::traits::', 'core::iter::traits::')) or ' as std::iter::Iterator>::' in cal \
            or ' as std::iter::DoubleEndedIterator>::' in cal
        if not is_iter and not cal.startswith(('std::option::Option', 'core::option::Option', 'std::result::Result', 'core::result::Result')):
            continue
        if not any(r[0] == 'agg' and r[1][0] == 'closure' and r[1][1] == q for a in c['args'][1:] for r in F.trace(parent, a)):
            continue
        rs = F.trace(parent, c['args'][0], deep=True)
        out += rs
        if is_iter:
            # the closure of an iterator adaptor / consumer (map, for_each, fold, ...) is applied to the items: what a `for` loop gets from next()
            out.append(('call', 'std::iter::Iterator::next', i, (), c))
        out += _closure_payload_roots(F, parent, rs, depth + 1)
    return out


def _short(r):
    if r[0] == 'param':
        return 'param%d.%s' % (r[1], '.'.join(r[2]))
    if r[0] == 'local':
        return 'local.' + '.'.join(r[2])
    if r[0] == 'call':
        return r[1].split('::')[-1] + '()'
    if r[0] == 'const':
        return 'const:' + str(r[1])[:24]
    if r[0] == 'binop':
        return 'binop:' + r[1].replace('WithOverflow', '')
    if r[0] == 'agg':
        return 'agg:' + str(r[1][0])
    return r[0]


def _sigF(F, p, o):
    """stable description of where an operand comes from (no block numbers, no ordinals): survives unrelated edits of the function"""
    return ','.join(sorted({_short(r) for r in F.trace(p, o)}))


def run(F, tier, res):
    res.assumptions += ['Rust `regex` and Python `re` agree on group structure', 'std / dependency functions do not panic on the values they are given (not analysed)']
    res.not_decided += ['explicit aborts inside helper functions that do not touch the state machine (not interpreted by E1), hangs / termination, allocation size, str char-boundary slicing in general, indexing inside the alignment kernels (align.rs, edits.rs: DP table indices), subtraction / slicing inside the escape-sequence kernel (ansi/mod.rs: offsets within Element ranges produced by its own iterator) and inside the alignment / annotation kernels (align.rs, edits.rs: offsets over their own token lists), arithmetic other than subtraction',
                        'the CSI-sequence + non-ASCII text panic and the multi-byte combined-diff prefix panic named in the property text (char-boundary slicing: runtime values)']
    delta = [p for p in F.fn_bodies if p == 'delta::delta']
    if not delta:
        res.anchor_missing('delta::delta')
        return res
    render = F.reachable_from(delta)
    # ---------- P1
    acc, statics = rxsites.capture_accesses(F)
    n1 = ok1 = 0
    for a in acc:
        if a['fn'] not in render and not a['fn'].rsplit('::{closure', 1)[0] in render:
            continue
        if not a['unwrapped']:
            continue
        n1 += 1
        if a['index'] == 0:
            ok1 += 1
            continue
        rxs = a['regex']
        if rxs and rxs[0] == 'static' and a['index'] is not None:
            try:
                g, ng = rx.groups(statics[rxs[1]])
            except rx.RxError as e:
                res.violate('P1', 'regex=%s;unparsable' % rxs[1], str(e), where=a['where'])
                continue
            if isinstance(a['index'], int) and a['index'] in g and g[a['index']]['mandatory']:
                ok1 += 1
            else:
                res.violate('P1', 'fn=%s;regex=%s;group=%s' % (a['fn'], rxs[1].split('::')[-1], a['index']),
                            'capture group %s of %s is read with unwrap()/[] but does not participate in every match: a matching line can crash delta' % (a['index'], rxs[1].split('::')[-1]),
                            where=a['where'])
        elif rxs and rxs[0] == 'param':
            ok1 += 1   # regex passed in: the grep reader, whose five variants are checked by C16 (groups 1 and 8 mandatory)
        elif a['index'] is None:
            ok1 += 1   # variable index chosen after get(i).is_some() tests (GIT_CONFIG_PARAMETERS reader): not on the input path proper
        else:
            res.violate('P1', 'fn=%s;group=%s;regex-unknown' % (a['fn'], a['index']), 'cannot resolve the regex whose group %s is unwrapped' % a['index'], where=a['where'])
    res.rule('C03.P1', n1, 8, 'unwrapped capture-group reads on the input path; each group mandatory in its regex', discharged=ok1)
    # ---------- P2
    n2 = 0
    for p in sorted(render):
        for i, c in F.calls(p):
            r = callee_of(c)
            full = callee_full(c)
            if r.startswith('std::result::Result::<T, E>::') and r.endswith(('::unwrap', '::expect')):
                if 'ParseIntError' in full or 'ParseFloatError' in full:
                    res.violate('P2', 'fn=%s;callee=%s' % (p, r.split('::')[-1]), 'the result of a numeric parse of input text is unwrapped: digits that do not fit the integer type crash delta',
                                where=F.span_of_call(c))
            if r.endswith('::parse') or r.endswith('FromStr>::from_str'):
                n2 += 1
    res.rule('C03.P2', n2, 3, 'numeric/other parse calls on the input path; none followed by unwrap()/expect() of a ParseIntError/ParseFloatError result')
    # ---------- P3
    table = _load_table('c03_p3_handproved.json')
    sites = p3_sites(F, render)
    n3 = ok3 = 0
    samples = []
    for s in sites:
        n3 += 1
        why = discharge(F, s)
        key = 'fn=%s;sub[%s]-[%s]' % (s['fn'], _sigF(F, s['fn'], s['ops'][0]) if s['ops'] else '?', _sigF(F, s['fn'], s['ops'][1]) if s['ops'] else '?')
        oldkey = 'fn=%s;sub#%d' % (s['fn'], s['ord'])
        KEYMAP3[oldkey] = key
        if why:
            ok3 += 1
            samples.append('%s: %s' % (key, why))
        elif _table_get(table, key) is not None:
            ok3 += 1
            samples.append('%s: hand-proved: %s' % (key, _table_get(table, key)))
        else:
            res.violate('P3', key, 'an unsigned subtraction on the input path is not guarded by a comparison of its operands (overflow checks are on in debug builds; '
                        'in release it wraps to a huge value that is then used as a width / index)', where=s['where'])
    res.rule('C03.P3', n3, 8, 'unsigned subtractions on the input path: discharged by pattern, hand-proved table, or reported', discharged=ok3, samples=samples[:12])
    # ---------- P5: str slicing with a computed bound
    POS = ('::find', '::rfind', '::start', '::end', '::len', '::min', '::floor_char_boundary', '::ceil_char_boundary', '::char_indices', '::match_indices',
           '::position', '::saturating_sub', '::next', '::width', '::unwrap_or', '::checked_sub', '::range', '::ansi_preserving_index', '::offset')
    table5 = _load_table('c03_p5_handproved.json')
    n5 = ok5 = 0
    samples5 = []
    for p in sorted(render):
        if p.startswith(KERNELS):
            continue
        ordn = 0
        for i, c in F.calls(p):
            r = callee_of(c)
            full = callee_full(c)
            if not (r.endswith('::index') and ('for str>' in r or 'String as std::ops::Index' in r) and 'Range' in full):
                continue
            ordn += 1
            n5 += 1
            oldkey = 'fn=%s;slice#%d' % (p, ordn)
            # the range aggregate's operands
            bounds = []
            for rr in F.trace(p, c['args'][1]):
                pass
            pl = c['args'][1].get('move') or c['args'][1].get('copy')
            rng = None
            for (dbb, kind, payload) in (F.local_defs(p).get(pl['l'], []) if pl and not pl['p'] else []):
                if kind == 'assign' and payload[0] == 'agg':
                    rng = payload
            key = 'fn=%s;slice[%s]' % (p, ' .. '.join(_sigF(F, p, o) for o in rng[2]) if rng is not None else _sigF(F, p, c['args'][1]))
            KEYMAP5[oldkey] = key
            why = None
            if rng is None:
                why = None
            else:
                ops = rng[2]
                allok = True
                for o in ops:
                    lits = F.operand_literals(p, o)
                    roots = F.trace(p, o)
                    roots = roots + _closure_payload_roots(F, p, roots)
                    if any(rr[0] == 'call' and rr[1].endswith(POS) for rr in roots) or any(rr[0] == 'call' and ('Match' in rr[1] or 'regex' in rr[1]) for rr in roots):
                        continue       # a position produced by a search / match / length of a string
                    if _helper_position(F, roots, POS, 0):
                        continue       # ... computed by a local helper whose result is such a position (extract-function refactorings)
                    only_const = bool(roots) and all(rr[0] == 'const' for rr in roots)
                    if (lits and all(v[0] == 'int' for v in lits) and not any(rr[0] in ('param', 'call') for rr in roots)) or only_const:
                        # constant bound: must be under a prefix test (starts_with / strip_prefix / ends_with) or be 0
                        if lits and all(v[1] == 0 for v in lits):
                            continue
                        g = Ru.guarded_by(F, p, i, lambda rs: any(x[0] == 'call' and x[1].endswith(('::starts_with', '::ends_with', '::strip_prefix')) for x in rs))
                        if g:
                            continue
                        allok = False
                        continue
                    # computed bound. Only arithmetic that can leave the string is questioned: a quotient / product / remainder / shift of
                    # lengths or widths, a display width used as a byte offset, an offset with a constant added or subtracted. A value that
                    # comes out of an opaque accumulation (sum / fold / scan / a helper's result ...) is a position as far as shape can tell.
                    suspicious = any(rr[0] == 'binop' and rr[1].replace('WithOverflow', '').replace('Unchecked', '') in ('Div', 'Mul', 'Rem', 'Shr', 'Shl') for rr in roots) \
                        or any(rr[0] == 'call' and rr[1].endswith(('::width', '::measure_text_width', '::width_cjk')) for rr in roots) \
                        or (any(rr[0] == 'binop' and rr[1].replace('WithOverflow', '') in ('Add', 'Sub') for rr in roots) and any(v[0] == 'int' for v in lits))
                    opaque = any(rr[0] == 'call' for rr in roots) and not any(rr[0] == 'param' and not rr[2] for rr in roots)
                    if not suspicious and opaque:
                        continue
                    # ... dominated by a comparison with a len()
                    dom_ok = False
                    sig = _roots_sig(F, p, o)
                    for (swb, op, arms, other) in Ru.switches(F, p):
                        rs = F.trace(p, op)
                        if not any(x[0] == 'binop' and x[1] in ('Gt', 'Ge', 'Lt', 'Le') for x in rs):
                            continue
                        if not any(x[0] == 'call' and x[1].endswith('::len') for x in rs):
                            continue
                        from .c20 import _find_binop_rvalue
                        rv = _find_binop_rvalue(F, p, op)
                        if rv is None:
                            continue
                        l, r_ = _roots_sig(F, p, rv[2]), _roots_sig(F, p, rv[3])
                        if not (l & sig or r_ & sig):
                            continue
                        tt, ft = Ru.bool_edges(arms, other)
                        if any(e is not None and (Ru.edge_dominates(F, p, swb, e, i) or e == i) for e in (tt, ft)):
                            dom_ok = True
                    if dom_ok:
                        continue
                    allok = False
                # [k .. len() - j] with k >= 1: the two bounds must not cross, i.e. len() >= k + j must be established by a comparison
                # of the length with a constant (a starts_with and an ends_with test can be satisfied by the same single character)
                if allok and len(ops) == 2:
                    l0 = F.operand_literals(p, ops[0])
                    r0 = F.trace(p, ops[0])
                    r1 = F.trace(p, ops[1])
                    k = max([v[1] for v in l0 if v[0] == 'int'] or [0]) if not any(rr[0] in ('param', 'call') for rr in r0) else 0
                    subs = [rr for rr in r1 if (rr[0] == 'binop' and rr[1].startswith('Sub')) or (rr[0] == 'call' and rr[1].endswith('::saturating_sub'))]
                    has_len = any(rr[0] == 'call' and rr[1].endswith('::len') for rr in r1)
                    if k >= 1 and subs and has_len:
                        j = max([v[1] for v in F.operand_literals(p, ops[1]) if v[0] == 'int'] or [0])
                        need = k + j
                        crossed_ok = False
                        for (swb, op, arms, other) in Ru.switches(F, p):
                            rs = F.trace(p, op)
                            if not any(x[0] == 'binop' and x[1] in ('Gt', 'Ge', 'Lt', 'Le') for x in rs) or not any(x[0] == 'call' and x[1].endswith('::len') for x in rs):
                                continue
                            from .c20 import _find_binop_rvalue
                            rv = _find_binop_rvalue(F, p, op)
                            if rv is None:
                                continue
                            ll, lr = F.operand_literals(p, rv[2]), F.operand_literals(p, rv[3])
                            len_left = any(x[0] == 'call' and x[1].endswith('::len') for x in F.trace(p, rv[2]))
                            cs = [v[1] for v in (lr if len_left else ll) if v[0] == 'int']
                            if not cs:
                                continue
                            cst = cs[0]
                            opn = rv[1] if len_left else {'Gt': 'Lt', 'Ge': 'Le', 'Lt': 'Gt', 'Le': 'Ge'}[rv[1]]
                            tt, ft = Ru.bool_edges(arms, other)
                            if Ru.negations(F, p, op) % 2 == 1:
                                tt, ft = ft, tt
                            # edge on which len >= need holds
                            good = []
                            if opn == 'Ge' and cst >= need:
                                good = [tt]
                            elif opn == 'Gt' and cst + 1 >= need:
                                good = [tt]
                            elif opn == 'Lt' and cst >= need:
                                good = [ft]
                            elif opn == 'Le' and cst + 1 >= need:
                                good = [ft]
                            if any(e is not None and (Ru.edge_dominates(F, p, swb, e, i) or e == i) for e in good):
                                crossed_ok = True
                        if not crossed_ok:
                            allok = False
                            cross_note = ' (the bounds %d and len()-%d can cross: no dominating test that len() >= %d)' % (k, j, need)
                if allok:
                    why = 'bounds are search/match positions, lengths, guarded constants, or compared with len()'
            if why:
                ok5 += 1
            elif _table_get(table5, key) is not None:
                ok5 += 1
                samples5.append('%s: hand-proved: %s' % (key, _table_get(table5, key)))
            else:
                res.violate('P5', key, 'a string is sliced at a computed position that is neither a search/match position nor compared with the string\'s length: '
                            'an out-of-range (or non-boundary) index panics', where=F.span_of_call(c))
    res.rule('C03.P5', n5, 12, 'str/String slicing sites with range bounds on the input path: discharged by pattern, hand-proved table, or reported', discharged=ok5, samples=samples5[:8])
    # ---------- P6: Vec / slice indexing on the input path (outside the alignment kernels)
    table6 = _load_table('c03_p6_handproved.json')
    n6 = ok6 = 0
    samples6 = []
    nonempty_consumers = ('::initialize_hunk', '::write_line_of_code_with_optional_path_and_line_number')

    def _sig(p, o):
        # a closure's captured variables are read as the enclosing function's values (closure bodies are treated as inlined)
        return ','.join(sorted({_short(r) for r in F.trace_env(p, o)}))

    def _len_guard(p, at_bb, k, container_roots):
        """dominating comparison len(container) > k (k constant)"""
        for (swb, op, arms, other) in Ru.switches(F, p):
            rs = F.trace(p, op)
            if not any(x[0] == 'call' and x[1].endswith(('::len', '::is_empty')) for x in rs):
                continue
            tt, ft = Ru.bool_edges(arms, other)
            if Ru.negations(F, p, op) % 2 == 1:
                tt, ft = ft, tt
            if any(x[0] == 'call' and x[1].endswith('::is_empty') for x in rs):
                if k == 0 and ft is not None and (Ru.edge_dominates(F, p, swb, ft, at_bb) or ft == at_bb):
                    return True
                continue
            from .c20 import _find_binop_rvalue
            rv = _find_binop_rvalue(F, p, op)
            if rv is None:
                continue
            len_left = any(x[0] == 'call' and x[1].endswith('::len') for x in F.trace(p, rv[2]))
            cs = [v[1] for v in F.operand_literals(p, rv[3] if len_left else rv[2]) if v[0] == 'int']
            if not cs:
                continue
            cst = cs[0]
            opn = rv[1] if len_left else {'Gt': 'Lt', 'Ge': 'Le', 'Lt': 'Gt', 'Le': 'Ge', 'Eq': 'Eq', 'Ne': 'Ne'}.get(rv[1])
            good = []
            if opn == 'Gt' and cst >= k:
                good = [tt]
            elif opn == 'Ge' and cst >= k + 1:
                good = [tt]
            elif opn == 'Le' and cst >= k:
                good = [ft]
            elif opn == 'Lt' and cst >= k + 1:
                good = [ft]
            elif opn == 'Eq' and cst >= k + 1:
                good = [tt]
            elif opn == 'Ne' and cst >= k + 1:
                good = [ft]
            if any(e is not None and (Ru.edge_dominates(F, p, swb, e, at_bb) or e == at_bb) for e in good):
                return True
        return False

    for p in sorted(render):
        if p not in F.fn_bodies or p.startswith(('align::', 'edits::')):
            continue
        mir = F.bodies[p]['mir']
        for i, b in enumerate(F.blocks(p)):
            if b['cleanup']:
                continue
            t = b['t']
            site = None
            if t[0] == 'assert' and 'BoundsCheck' in t[1]:
                # the Len / index operands are in the assert message; find the index operand: `index: copy _N`
                import re as _re
                m = _re.search(r'index: (?:copy|move) _(\d+)', t[1])
                ml = _re.search(r'len: const (\d+)_usize', t[1])
                idx_op = {'copy': {'l': int(m.group(1)), 'p': []}} if m else None
                # the container: the place indexed in the next block is not needed for the key; use the Len rvalue's place
                cont_sig = ''
                mlv = _re.search(r'len: (?:copy|move) _(\d+)', t[1])
                if mlv:
                    cont_sig = _sig(p, {'copy': {'l': int(mlv.group(1)), 'p': []}})
                site = ('slice', idx_op, int(ml.group(1)) if ml else None, cont_sig, t[5].get('at'))
            elif t[0] == 'call':
                c = callee_of(t[1])
                full = callee_full(t[1])
                head = full.split(' as ')[0]
                if (c.endswith('::index') or c.endswith('::index_mut')) and (head.startswith('<std::vec::Vec<') or head.startswith('<[')):
                    site = ('vec', t[1]['args'][1], None, _sig(p, t[1]['args'][0]), F.span_of_call(t[1]))
                    cont_op = t[1]['args'][0]
            if not site:
                continue
            kind, idx_op, const_len, cont_sig, where = site
            n6 += 1
            idx_sig = _sig(p, idx_op) if idx_op else '?'
            key = 'fn=%s;index=[%s] of [%s]' % (p, idx_sig, cont_sig)
            lits = [v[1] for v in F.operand_literals(p, idx_op) if v[0] == 'int'] if idx_op else []
            roots = F.trace_env(p, idx_op) if idx_op else []
            computed = any(r[0] in ('param', 'call', 'binop', 'local') for r in roots)
            why = None
            if const_len is not None and lits and not computed and max(lits) < const_len:
                why = 'constant index into a fixed-size array'
            elif const_len is not None and any(r[0] in ('discr',) or (r[0] == 'other') for r in roots) and not any(r[0] == 'call' for r in roots):
                why = 'fixed-size array indexed by an enum discriminant'
            elif lits and not computed and kind == 'vec' and any(r[0] == 'call' and ('into_vec' in r[1] or 'from_elem' in r[1]) for r in F.trace(p, cont_op)):
                why = 'constant index into a vec![..] literal built in the same function'
            elif lits and not computed and _len_guard(p, i, max(lits), None):
                why = 'constant index under a dominating length test'
            elif any(r[0] == 'binop' and r[1].startswith('Rem') for r in roots) and any(r[0] == 'call' and r[1].endswith('::len') for r in roots):
                why = 'index reduced modulo the length (an empty container fails the remainder, not the index: palette non-empty is a stated assumption)'
            elif p.endswith(nonempty_consumers) and ((lits and max(lits) == 0 and not computed) or any(r[0] == 'call' and r[1].endswith('::len') for r in roots)):
                why = 'first / last element of the coordinate slice, non-empty by rule NONEMPTY'
            if not why and kind == 'vec' and 'RangeTo<' in full and any(r[0] == 'binop' and r[1].startswith('Div') for r in roots) \
                    and any(r[0] == 'call' and r[1].endswith('::len') for r in roots) and not any(r[0] == 'binop' and r[1].startswith(('Add', 'Mul')) for r in roots):
                why = '[..len()/k]: a quotient of the length never exceeds it'
            if why:
                ok6 += 1
                samples6.append('%s: %s' % (key, why))
            elif _table_get(table6, key) is not None:
                ent = _table_get(table6, key)
                if isinstance(ent, dict) and ent.get('requires_guard'):
                    suf = ent['requires_guard']

                    def _has(rs, suf=suf, p=p):
                        for r in rs:
                            if r[0] == 'call' and r[1].endswith(suf):
                                return True
                            if r[0] == 'call':
                                for a in r[4]['args']:
                                    if any(x[0] == 'call' and x[1].endswith(suf) for x in F.trace(p, a, deep=True)):
                                        return True
                        return False
                    def _guarded_at(q, bb, depth=0):
                        if Ru.guarded_by(F, q, bb, _has) or Ru.guarded_by(F, q, bb, _has, want_true=False):
                            return True
                        # inside a closure: the guard may dominate the place where the closure is consumed, or be the bool whose
                        # `then(..)` runs the closure
                        site = F.closure_site(q) if depth < 3 else None
                        if not site:
                            return False
                        parent = site[0]
                        for j, c2 in F.calls(parent):
                            if not any(r[0] == 'agg' and r[1][0] == 'closure' and r[1][1] == q for a in c2['args'] for r in F.trace(parent, a)):
                                continue
                            if callee_of(c2).endswith(('bool::then', '<bool>::then', '<impl bool>::then')):
                                suf_ = suf
                                if any(x[0] == 'call' and x[1].endswith(suf_) for x in F.trace(parent, c2['args'][0], deep=True)):
                                    return True
                            if _guarded_at(parent, j, depth + 1):
                                return True
                        return False
                    if not _guarded_at(p, i):
                        res.violate('P6', key + ';guard', 'the recorded argument for this index site relies on a dominating `%s` test that is no longer there' % suf, where=where)
                        continue
                ok6 += 1
                samples6.append('%s: hand-proved: %s' % (key, ent['reason'] if isinstance(ent, dict) else ent))
            else:
                res.violate('P6', key, 'a vector / slice is indexed at a position that no dominating length test, modulo, literal size or recorded argument bounds: '
                            'an out-of-range index panics', where=where)
    res.rule('C03.P6', n6, 12, 'Vec / slice index sites on the input path outside align.rs / edits.rs: discharged by pattern, hand-proved table, or reported', discharged=ok6, samples=samples6[:10])
    # ---------- NONEMPTY: the coordinate list of a parsed hunk header is never empty (it is indexed at [0] and [len-1] downstream)
    nn = okn = 0
    consumers = [q for q in F.fn_bodies if q.endswith('::initialize_hunk') or q.endswith('::write_line_of_code_with_optional_path_and_line_number')]
    FIELD = 'line_numbers_and_hunk_lengths'
    for p in sorted(F.fn_bodies):
        if ' as std::clone::Clone>' in p or ' as std::default::Default>' in p:
            continue
        for i, b in enumerate(F.blocks(p)):
            if b['cleanup']:
                continue
            for st in b['s']:
                if st[0] == 'assign' and st[2][0] == 'agg' and st[2][1][0] == 'adt' and st[2][1][1].endswith('::ParsedHunkHeader'):
                    nn += 1
                    names = st[2][1][4]
                    if FIELD not in names:
                        res.anchor_missing('ParsedHunkHeader.' + FIELD)
                        continue
                    o = st[2][2][names.index(FIELD)]
                    def _nonempty_at(p, i, o, depth=0):
                        sig = _roots_sig(F, p, o)
                        pl = o.get('move') or o.get('copy')

                        def is_empty_of_same(rs):
                            for r in rs:
                                if r[0] == 'call' and r[1].endswith('::is_empty'):
                                    for a in r[4]['args'][:1]:
                                        ra = F.trace(p, a)
                                        if any(x[0] == 'local' and pl and x[1] == pl['l'] for x in ra) or (_roots_sig(F, p, a) & sig):
                                            return True
                            return False
                        if i is None:
                            return is_empty_of_same
                        if Ru.guarded_by(F, p, i, is_empty_of_same, want_true=False):
                            return True
                        # the constructor sits in a closure: the test may dominate the place where the closure is consumed, or be the
                        # bool whose `then(..)` runs it -- `(!v.is_empty()).then(|| ParsedHunkHeader { .. v .. })`
                        site = F.closure_site(p) if depth < 3 else None
                        if not site:
                            return False
                        parent, _, cops = site
                        captured = [co for co in cops if any(r[0] == 'param' and r[1] == 1 and r[2] and str(r[2][0]).isdigit() and
                                                             int(r[2][0]) < len(cops) and cops[int(r[2][0])] is co for r in F.trace(p, o))]
                        for j, c2 in F.calls(parent):
                            if not any(r[0] == 'agg' and r[1][0] == 'closure' and r[1][1] == p for a in c2['args'] for r in F.trace(parent, a)):
                                continue
                            for co in captured:
                                if callee_of(c2).endswith(('bool::then', '<impl bool>::then')):
                                    pred = _nonempty_at(parent, None, co)
                                    if pred(F.trace(parent, c2['args'][0])) and Ru.negations(F, parent, c2['args'][0]) % 2 == 1:
                                        return True
                                if _nonempty_at(parent, j, co, depth + 1):
                                    return True
                        return False
                    if _nonempty_at(p, i, o):
                        okn += 1
                    else:
                        res.violate('NONEMPTY', 'fn=%s;ctor' % p, 'a ParsedHunkHeader is constructed without a dominating test that its coordinate list is non-empty: '
                                    'the hunk-header emitter indexes it at [0] and [len() - 1] (`@@ @@` would crash delta)', where=F.bodies[p]['mir']['span']['at'])
    for q in consumers:
        for (p, i, c) in Ru.call_sites(F, lambda r, cc: r == q):
            nn += 1
            k = 1
            a = c['args'][k]
            roots = F.trace(p, a)
            from_hdr = any(r[0] in ('param', 'local') and r[2] and r[2][-1] == FIELD for r in roots)
            one_elem = False
            for blk in F.blocks(p):
                for st in blk['s']:
                    if st[0] == 'assign' and st[2][0] == 'agg' and st[2][1][0] == 'array' and len(st[2][2]) >= 1:
                        # the array literal whose reference reaches this argument
                        if any(r[0] == 'agg' and r[1][0] == 'array' for r in roots):
                            one_elem = True
            promoted = False
            for r in roots:
                if r[0] == 'const' and len(r) > 3:
                    v = F.const_value(r[3], p)
                    if v and v[0] == 'promoted':
                        for blk in v[1]['blocks']:
                            for st in blk['s']:
                                if st[0] == 'assign' and st[2][0] == 'agg' and st[2][1][0] == 'array' and len(st[2][2]) >= 1:
                                    promoted = True
            if from_hdr or one_elem or promoted:
                okn += 1
            else:
                res.violate('NONEMPTY', 'fn=%s;callee=%s' % (p, q.split('::')[-1]), 'the coordinate slice passed to %s is neither the list of a ParsedHunkHeader nor a literal array: '
                            'it may be empty, and is indexed at [0] / [len() - 1]' % q.split('::')[-1], where=F.span_of_call(c))
    res.rule('C03.NONEMPTY', nn, 3, 'constructors of ParsedHunkHeader (non-emptiness test dominates) and call sites of the two consumers that index the coordinate list', discharged=okn)
    # ---------- P4
    from . import _e1common as E
    from .. import extract
    _, h, _ = extract.facts_path()
    # quick: aborts reachable on grammar-conforming input (modes N and H, shared with the other E1 properties);
    # thorough: additionally mode X = no input-grammar assumptions (all byte streams)
    R = E.runs(F, h, ['N', 'H'] if tier == 'quick' else ['N', 'H', 'X'])
    X = {'aborts': [a for r in R.values() for a in r['aborts']]}
    aborts = X['aborts']
    table4 = _load_table('c03_p4_triaged.json')
    n4 = ok4 = 0
    seen4 = set()
    for a in aborts:
        key = 'fn=%s;callee=%s' % (a['fn'], a['callee'].split('::')[-1])
        if key in seen4:
            continue
        seen4.add(key)
        n4 += 1
        if key in table4:
            ok4 += 1
        else:
            res.violate('P4', key, 'an explicit abort (%s) is reachable from the line loop for some byte stream [first abstract state: %s, via %s]' % (
                a['callee'].split('::')[-1], a['state'], a['via']), where=a['site'])
    res.rule('C03.P4', n4, 1, 'explicit aborts reached by the abstract interpreter (in the functions it interprets: those that touch the state machine) without input-grammar assumptions; each triaged', discharged=ok4,
             samples=['%s <- %s' % (a['callee'].split('::')[-1], a['fn'].split('::')[-1]) for a in aborts][:8])
    E.evidence(res, R)
    res.distinct.update(r['rule'] for r in res.rules)
    return res
