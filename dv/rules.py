"""E2 — small rule library over MIR CFGs (DESIGN.md section 2)."""
from .facts import callee_of, reach, iter_consts


def field_writes(F, path, adt=None, field=None):
    """[(bb, field_chain(tuple of (adt, field)), kind('assign'|'call'), payload)] for writes to places projecting through fields"""
    out = []
    for i, b in enumerate(F.blocks(path)):
        if b['cleanup']:
            continue
        for st in b['s']:
            if st[0] == 'assign' and st[1]['p']:
                flds = [(p[2], p[3]) for p in st[1]['p'] if p[0] == 'field']
                if flds and (adt is None or any(a == adt for a, _ in flds)) and (field is None or any(f == field for _, f in flds)):
                    out.append((i, tuple(flds), 'assign', st))
        t = b['t']
        if t[0] == 'call':
            dp = t[1]['dest']
            flds = [(p[2], p[3]) for p in dp['p'] if p[0] == 'field']
            if flds and (adt is None or any(a == adt for a, _ in flds)) and (field is None or any(f == field for _, f in flds)):
                out.append((i, tuple(flds), 'call', t[1]))
            # dst.clone_from(&src) / mem::replace style writes through &mut field
            cal = callee_of(t[1])
            if cal.endswith(('::clone_from', '::push_str', '::truncate', '::clear', '::insert', '::push', '::extend')) and t[1]['args']:
                for r in F.trace(path, t[1]['args'][0]):
                    if r[0] == 'param' and r[2]:
                        # r[2] is a field name chain without adt info
                        if field is None or field in r[2]:
                            out.append((i, tuple((None, f) for f in r[2]), 'mutcall:' + cal.split('::')[-1], t[1]))
    return out


def switches(F, path):
    """[(bb, operand, arms, otherwise)]"""
    out = []
    for i, b in enumerate(F.blocks(path)):
        if not b['cleanup'] and b['t'][0] == 'switch':
            out.append((i, b['t'][1], b['t'][2], b['t'][3]))
    return out


def bool_edges(t_arms, otherwise):
    """for a switch on a bool: (true_target, false_target)"""
    false_t = None
    for v, b in t_arms:
        if v == 0:
            false_t = b
    return otherwise, false_t


def negations(F, path, op):
    """number of `Not` on the way from the traced roots to the switch operand (parity matters)"""
    return sum(1 for r in F.trace(path, op) if r[0] == 'unop' and r[1] == 'Not')


def edge_dominates(F, path, switch_bb, target_bb, bb):
    """is bb dominated by the edge switch_bb -> target_bb (edge-sensitive guard)?"""
    if target_bb is None:
        return False
    P = F.preds(path)
    dom = F.dominators(path)
    if target_bb not in dom.get(bb, ()):
        return False
    return P[target_bb] == {switch_bb}


def predicate_implies(F, q, root_pred, want_true=True, depth=0):
    """q is a local function returning bool. Does `q(..) == true` imply that a condition whose provenance satisfies root_pred holds
    (want_true) / does not hold (not want_true)?  True when some switch inside q has such an operand and the corresponding edge
    dominates every block in which q's result can become true (a conjunction `a && b && c` extracted into a predicate method), or
    when the returned value itself is such a condition."""
    if q not in F.fn_bodies or depth > 2 or F.bodies[q]['mir']['locals'][0] != 'bool':
        return False
    blocks = F.blocks(q)
    ret_roots = F.trace(q, {'copy': {'l': 0, 'p': []}})
    if want_true and root_pred(ret_roots) and sum(1 for r in ret_roots if r[0] == 'unop' and r[1] == 'Not') % 2 == 0 \
            and not any(r[0] == 'const' and 'true' in str(r[1]) for r in ret_roots):
        return True
    # blocks where _0 is assigned something that may be true
    may_true = []
    for bi, blk in enumerate(blocks):
        if blk['cleanup']:
            continue
        for st in blk['s']:
            if st[0] == 'assign' and st[1]['l'] == 0 and not st[1]['p']:
                if st[2][0] == 'use' and 'const' in st[2][1] and 'false' in st[2][1]['const'].get('repr', ''):
                    continue
                may_true.append(bi)
        t = blk['t']
        if t[0] == 'call' and t[1]['dest']['l'] == 0 and not t[1]['dest']['p']:
            may_true.append(bi)
    if not may_true:
        return False
    for (sb, op, arms, other) in switches(F, q):
        roots = F.trace(q, op)
        ok_here = root_pred(roots)
        nested = False
        if not ok_here:
            for r in roots:
                if r[0] == 'call':
                    q2 = r[1] if r[1] in F.fn_bodies else (r[4].get('resolved') or '')
                    if predicate_implies(F, q2, root_pred, want_true, depth + 1):
                        nested = True
        if not ok_here and not nested:
            continue
        neg = sum(1 for r in roots if r[0] == 'unop' and r[1] == 'Not') % 2 == 1
        tt, ft = bool_edges(arms, other)
        if nested:
            tgt = ft if neg else tt
        else:
            tgt = (ft if neg else tt) if want_true else (tt if neg else ft)
        if tgt is not None and all(edge_dominates(F, q, sb, tgt, mb) or tgt == mb for mb in may_true):
            return True
    return False


def guarded_by(F, path, bb, root_pred, want_true=True):
    """is block bb control-dominated by an edge of a switch whose operand's provenance satisfies root_pred(roots)?
    want_true: the edge on which the (un-negated) root condition holds. Returns (switch_bb, target) or None.
    A condition that has been extracted into a local predicate function (`if self.is_pending() {..}`) counts on the predicate's
    true edge when predicate_implies() shows that its truth implies the condition."""
    for (sb, op, arms, other) in switches(F, path):
        roots = F.trace(path, op)
        if not root_pred(roots):
            via_pred = False
            for r in roots:
                if r[0] == 'call':
                    q = r[1] if r[1] in F.fn_bodies else (r[4].get('resolved') or '')
                    if q and q != path and predicate_implies(F, q, root_pred, want_true):
                        via_pred = True
            if via_pred:
                neg = sum(1 for r in roots if r[0] == 'unop' and r[1] == 'Not') % 2 == 1
                tt, ft = bool_edges(arms, other)
                tgt = ft if neg else tt
                if edge_dominates(F, path, sb, tgt, bb):
                    return (sb, tgt)
            continue
        neg = sum(1 for r in roots if r[0] == 'unop' and r[1] == 'Not') % 2 == 1
        tt, ft = bool_edges(arms, other)
        cond_true_target = ft if neg else tt
        cond_false_target = tt if neg else ft
        tgt = cond_true_target if want_true else cond_false_target
        if edge_dominates(F, path, sb, tgt, bb):
            return (sb, tgt)
    return None


def returns(F, path):
    return [i for i, b in enumerate(F.blocks(path)) if not b['cleanup'] and b['t'][0] == 'return']


def must_pass(F, path, start, via_blocks, exits=None):
    """every path from start to an exit passes one of via_blocks? returns list of exits reachable avoiding them"""
    S = F.cfg(path)
    ex = set(exits if exits is not None else returns(F, path))
    r = reach(S, start, avoid=set(via_blocks))
    return sorted(x for x in ex if x in r)


def reachable_after(F, path, bb):
    S = F.cfg(path)
    return reach(S, S.get(bb, []))


def str_lits(F, path, op):
    return [v[1] for v in F.operand_literals(path, op) if v[0] == 'str']


def call_sites(F, pred, paths=None):
    out = []
    for p in (paths if paths is not None else F.fn_bodies):
        for i, c in F.calls(p):
            if pred(callee_of(c), c):
                out.append((p, i, c))
    return out
