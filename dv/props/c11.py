"""C11 — output is streamed: bounded lag behind the input, never revised (structural part)."""
from . import _e1common as E
from .. import rules as Ru
from ..facts import callee_of, callee_full

EXPLANATION = (
    "Four clauses. STREAM (E1, modes N/H): on every exit of the hunk-line handler that claims a line, output_buffer is empty, i.e. "
    "everything rendered so far has been written; together with ORD-W (C01) output is never revised. LAG (MIR rule): in the hunk-line "
    "handler every push onto the subhunk buffers is dominated by a comparison of that buffer's len() with config.line_buffer_size whose "
    "'exceeds' edge reaches the paint-and-clear function before the push. INPUT: the renderer is instantiated in run_app only over "
    "line-streaming readers (StdinLock, BufReader<ChildStdout>) and run_app does not slurp the input. SINK: no BufWriter/LineWriter is "
    "constructed anywhere reachable from main.")

PAINTER = 'paint::Painter'


def run(F, tier, res):
    from .. import extract
    _, h, _ = extract.facts_path()
    modes = ['N', 'H'] if tier == 'quick' else ['N', 'H', 'R']
    R = E.runs(F, h, modes)
    res.assumptions += E.ASSUMPTIONS
    res.not_decided += ['timing; that the OS pipe / pager does not buffer', 'memory growth inside one over-long line']
    E.add_e1(res, R, {'STREAM', 'EOF'}, 'C11')
    N = R['N']
    res.rule('C11.STREAM', N['summary']['once_checked'], 500, 'claiming exits of the hunk-line handler; output_buffer empty on each')
    hlhs = N['summary']['hunk_line_handlers']
    paint_fns = {eval(x)[0] for x in N['event_sites'].get('PAINT_LB', [])} if N['event_sites'].get('PAINT_LB') else set()
    reaches_paint = F.reverse_reaching(paint_fns)
    n = ok = 0
    from ..facts import reach
    from .c20 import _find_binop_rvalue

    def pred_buffers(q):
        """q is a local bool function; the buffers b for which `q(..) == false` implies len(b) <= line_buffer_size: q is a disjunction
        of `len(b) > limit` tests (no `_0 = false` short-circuit, nothing else feeding the result)"""
        if q not in F.fn_bodies or F.bodies[q]['mir']['locals'][0] != 'bool':
            return set()
        bufs = set()
        for blk in F.blocks(q):
            for st in blk['s']:
                if st[0] == 'assign' and st[1]['l'] == 0 and not st[1]['p'] and st[2][0] == 'use' and 'const' in st[2][1] and 'false' in st[2][1]['const'].get('repr', ''):
                    return set()
                if st[0] == 'assign' and st[2][0] == 'binop' and st[2][1] in ('Gt', 'Ge'):
                    l_, r_ = F.trace(q, st[2][2]), F.trace(q, st[2][3])
                    if any(x[0] == 'param' and x[2] and x[2][-1] == 'line_buffer_size' for x in r_):
                        for x in l_:
                            if x[0] == 'call' and x[1].endswith('::len'):
                                for a in x[4]['args'][:1]:
                                    for rr in F.trace(q, a):
                                        if rr[0] == 'param' and rr[2] and rr[2][-1] in ('minus_lines', 'plus_lines'):
                                            bufs.add(rr[2][-1])
        rr0 = F.trace(q, {'copy': {'l': 0, 'p': []}})
        if any(x[0] == 'unop' for x in rr0) or any(x[0] == 'call' and not x[1].endswith('::len') and not x[1].endswith(('::deref', '::as_ref')) for x in rr0):
            return set()
        return bufs

    def any_buffers(fn, r):
        """`[&a, &b].iter().any(|v| v.len() > limit)`: false means every listed buffer is within the limit"""
        if not r[1].endswith('::any') or len(r[4]['args']) < 2:
            return set()
        cl = [x[1][1] for x in F.trace(fn, r[4]['args'][1]) if x[0] == 'agg' and x[1][0] == 'closure']
        if len(cl) != 1 or cl[0] not in F.fn_bodies or F.bodies[cl[0]]['mir']['locals'][0] != 'bool':
            return set()
        q = cl[0]
        good = False
        for blk in F.blocks(q):
            for st in blk['s']:
                if st[0] == 'assign' and st[1]['l'] == 0 and not st[1]['p'] and st[2][0] == 'use' and 'const' in st[2][1]:
                    return set()
                if st[0] == 'assign' and st[2][0] == 'binop' and st[2][1] in ('Gt', 'Ge'):
                    l_, r_ = F.trace(q, st[2][2]), F.trace_env(q, st[2][3])
                    if any(x[0] == 'param' and x[2] and x[2][-1] == 'line_buffer_size' for x in r_) and \
                            any(x[0] == 'call' and x[1].endswith('::len') and any(y[0] == 'param' and y[1] >= 2 for a in x[4]['args'][:1] for y in F.trace(q, a)) for x in l_):
                        good = True
        rr0 = F.trace(q, {'copy': {'l': 0, 'p': []}})
        if not good or any(x[0] == 'unop' for x in rr0) or any(x[0] == 'call' and not x[1].endswith(('::len', '::deref', '::as_ref')) for x in rr0):
            return set()
        return {x[2][-1] for x in F.trace(fn, r[4]['args'][0], deep=True) if x[0] in ('param', 'local') and x[2] and x[2][-1] in ('minus_lines', 'plus_lines')}

    def buffer_guards(fn):
        """{buffer: [(switch_bb, exceeds_target, notexceeds_target)]} for comparisons of a subhunk buffer's len() with line_buffer_size"""
        guards = {}
        for (sb, op, arms, other) in Ru.switches(F, fn):
            roots = F.trace(fn, op)
            # the test may have been extracted into a predicate method
            for r in roots:
                if r[0] == 'call':
                    q = r[1] if r[1] in F.fn_bodies else (r[4].get('resolved') or '')
                    pb_ = pred_buffers(q) or any_buffers(fn, r)
                    if pb_ and Ru.negations(F, fn, op) % 2 == 0:
                        tt, ft = Ru.bool_edges(arms, other)
                        for w in pb_:
                            guards.setdefault(w, []).append((sb, tt, ft))
            cmpop = [r for r in roots if r[0] == 'binop' and r[1] in ('Gt', 'Ge', 'Lt', 'Le')]
            lens = [r for r in roots if r[0] == 'call' and r[1].endswith('::len')]
            lim = any(r[0] == 'param' and r[2] and r[2][-1] == 'line_buffer_size' for r in roots)
            if not (cmpop and lens and lim):
                continue
            which = set()
            for r in lens:
                for a in r[4]['args'][:1]:
                    for rr in F.trace(fn, a):
                        if rr[0] == 'param' and rr[2] and rr[2][-1] in ('minus_lines', 'plus_lines'):
                            which.add(rr[2][-1])
            if len(which) != 1:
                # a value that may be the length of either buffer (e.g. selected by a condition) bounds neither of them
                continue
            rv = _find_binop_rvalue(F, fn, op)
            if rv is None:
                continue
            len_left = any(r[0] == 'call' and r[1].endswith('::len') for r in F.trace(fn, rv[2]))
            big = {'Gt': True, 'Ge': True, 'Lt': False, 'Le': False}[rv[1]]
            if not len_left:
                big = not big
            if Ru.negations(F, fn, op) % 2:
                big = not big
            tt, ft = Ru.bool_edges(arms, other)
            for w in which:
                guards.setdefault(w, []).append((sb, tt if big else ft, ft if big else tt))
        return guards

    def unsafe_reach(fn, buffer, extra_safe=()):
        """blocks reachable from entry without the buffer having been painted or found within the limit"""
        gs = buffer_guards(fn).get(buffer, [])
        paints_ = {i for i, c in F.calls(fn) if callee_of(c) in reaches_paint} | set(extra_safe)
        cut = {(sb, ne) for (sb, ex, ne) in gs if ne is not None}
        S2 = {b_: [x for x in ss if (b_, x) not in cut] for b_, ss in F.cfg(fn).items()}
        return reach(S2, 0, avoid=paints_), bool(gs)

    def is_guarding_helper(fn, buffer):
        """a helper that, on every path to its return, has painted the buffers or established len <= limit"""
        if fn not in F.fn_bodies:
            return False
        r, has = unsafe_reach(fn, buffer)
        return has and not any(x in r for x in Ru.returns(F, fn))
    for hl in hlhs:
        blocks = F.blocks(hl)
        pushes = []
        for i, c in F.calls(hl):
            if callee_of(c).endswith('::push') and c['args']:
                for r in F.trace(hl, c['args'][0]):
                    if r[0] == 'param' and r[2] and r[2][-1] in ('minus_lines', 'plus_lines'):
                        pushes.append((i, r[2][-1]))
            # a push made by a method the handler calls (extract-method refactorings) counts at the call
            g_ = callee_of(c) if callee_of(c) in F.fn_bodies else (c.get('resolved') or '')
            if g_ in F.fn_bodies and g_ != hl and 'StateMachine' in ' '.join(F.bodies[g_]['mir']['locals'][1:2]):
                for _, c2 in F.calls(g_):
                    if callee_of(c2).endswith('::push') and c2['args']:
                        for r in F.trace(g_, c2['args'][0]):
                            if r[0] == 'param' and r[2] and r[2][-1] in ('minus_lines', 'plus_lines'):
                                pushes.append((i, r[2][-1]))
        for (pb, fld) in pushes:
            n += 1
            helpers = {i for i, c in F.calls(hl) if callee_of(c) in F.fn_bodies and callee_of(c) not in reaches_paint - {callee_of(c)} and is_guarding_helper(callee_of(c), fld)}
            helpers |= {i for i, c in F.calls(hl) if is_guarding_helper(callee_of(c), fld)}
            r, has = unsafe_reach(hl, fld, extra_safe=helpers)
            good = (has or bool(helpers)) and pb not in r
            if good:
                ok += 1
            else:
                res.violate('LAG', 'fn=%s;buffer=%s' % (hl, fld),
                            'a push onto %s is not preceded by a len() > line_buffer_size check that paints and clears the buffers: '
                            'the number of held-back lines is unbounded (a huge added/removed file is rendered only at its end)' % fld,
                            where=F.span_of_call(blocks[pb]['t'][1]))
    res.rule('C11.LAG', n, 1, 'pushes onto minus_lines/plus_lines in the hunk-line handler, each guarded by the line_buffer_size check', discharged=ok)
    # INPUT
    ra = [p for p in F.fn_bodies if p == 'run_app' or p.endswith('::run_app')]
    if not ra:
        res.anchor_missing('run_app')
    n_in = ok_in = 0
    for p in ra:
        for i, c in F.calls(p):
            r = callee_of(c)
            if r == 'delta::delta' or (r.endswith('::delta') and 'ByteLines' in ' '.join(F.bodies.get(r, {}).get('mir', {}).get('locals', [])[:3])):
                n_in += 1
                full = callee_full(c)
                if 'StdinLock' in full or 'BufReader<std::process::ChildStdout>' in full:
                    ok_in += 1
                else:
                    res.violate('INPUT', 'fn=%s;inst=%s' % (p, full), 'the renderer is fed from a reader that is not a line-streaming view of stdin / the child\'s stdout', where=F.span_of_call(c))
            if r.endswith(('::read_to_end', '::read_to_string')) or r == 'std::fs::read':
                res.violate('INPUT', 'fn=%s;callee=%s' % (p, r), 'run_app reads a whole stream into memory', where=F.span_of_call(c))
    res.rule('C11.INPUT', n_in, 1, 'instantiations of the renderer in run_app (StdinLock / BufReader<ChildStdout>)', discharged=ok_in)
    # SINK
    mains = [p for p in F.fn_bodies if p == 'main']
    scanned = 0
    for p in sorted(F.reachable_from(mains) if mains else F.fn_bodies):
        for i, c in F.calls(p):
            scanned += 1
            full = callee_full(c)
            if ('BufWriter' in full or 'LineWriter' in full) and callee_of(c).endswith(('::new', '::with_capacity')):
                res.violate('SINK', 'fn=%s;callee=%s' % (p, callee_of(c)), 'a buffering writer is constructed: output may be held back arbitrarily', where=F.span_of_call(c))
    res.rule('C11.SINK', scanned, 1000, 'calls reachable from main scanned for BufWriter/LineWriter construction')
    E.evidence(res, R)
    return res
