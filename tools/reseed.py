#!/usr/bin/env python3
"""tools/reseed.py [id-substring]: re-run the checks named in every seeded/*/meta.json (checks = detected_by + missed_by) and update meta.json."""
import json, os, subprocess, sys, glob
V='/verif'; sel = sys.argv[1] if len(sys.argv) > 1 else ''
for mp in sorted(glob.glob(V+'/seeded/*/meta.json')):
    if sel not in mp: continue
    meta=json.load(open(mp)); d=os.path.dirname(mp)
    checks = meta.get('checks') or list(dict.fromkeys(meta.get('detected_by', []) + meta.get('missed_by', [])))
    first_missed = meta.get('missed_before_strengthening', meta.get('missed_by', []))
    det, mis, rep = [], [], {}
    subprocess.check_call(['git','-C',os.environ.get('DV_REPO','/repo'),'apply',os.path.join(d,'patch.diff')])
    try:
        for c in checks:
            r=subprocess.run([V+'/check',c],stdout=subprocess.PIPE,stderr=subprocess.STDOUT,text=True)
            lines=[l.strip() for l in r.stdout.splitlines() if l.strip().startswith(c+' [')]
            if r.returncode==1 and 'VIOLATION' in r.stdout: det.append(c); rep[c]=lines[:3]
            else: mis.append(c)
    finally:
        subprocess.check_call(['git','-C',os.environ.get('DV_REPO','/repo'),'checkout','--','.'])
    meta.update({'checks': checks, 'detected_by': det, 'missed_by': mis, 'reports': rep, 'missed_before_strengthening': first_missed})
    json.dump(meta, open(mp,'w'), indent=1)
    print('%-8s breaks %s  detected_by=%s missed_by=%s (missed before strengthening: %s)' % (meta['id'], meta['breaks_property'], det, mis, first_missed))
