"""Fact loader and CFG / call-graph / provenance utilities over the E0 facts (MIR as JSON)."""
import collections
import json
import re

PROV_PRESERVING_SUFFIXES = (
    '::deref', '::deref_mut', '::as_ref', '::as_mut', '::as_str', '::as_bytes', '::clone', '::to_owned',
    '::to_string', '::borrow', '::borrow_mut', '::unwrap', '::expect', '::unwrap_or_default', '::into',
    '::from', '::as_slice', '::as_deref', '::as_mut_str', '::unwrap_or', '::unwrap_or_else', '::into_owned',
    '::as_mut_slice', '::to_vec', '::unwrap_unchecked', '::index', '::index_mut', '::into_owned', '::trim', '::trim_end', '::trim_start',
)


class Facts:
    def __init__(self, path):
        with open(path) as fh:
            d = json.load(fh)
        self.path = path
        self.crate = d['crate']
        self.nonce = d.get('nonce')
        self.bodies = {}
        self.dups = collections.Counter()
        for b in d['bodies']:
            p = b['path']
            if p in self.bodies:
                # several closures / trait impl methods can share def_path_str: disambiguate by ordinal
                self.dups[p] += 1
                p = '%s#%d' % (p, self.dups[p])
                b['path'] = p
            self.bodies[p] = b
        self.adts = {a['path']: a for a in d['adts']}
        self.fn_bodies = {p: b for p, b in self.bodies.items() if b['kind'] in ('Fn', 'AssocFn', 'Closure')}
        self.const_bodies = {p: b for p, b in self.bodies.items() if p not in self.fn_bodies}
        self._cfg = {}
        self._dom = {}
        self._pdom = {}
        self._defs = {}
        self._cg = None
        self._rcg = None

    # ---------- census ----------
    def census(self):
        nb = nblk = ncall = nunres = nassert = 0
        for b in self.fn_bodies.values():
            nb += 1
            for blk in b['mir']['blocks']:
                nblk += 1
                t = blk['t']
                if t[0] == 'call':
                    ncall += 1
                    if 'callee' in t[1] and 'resolved' not in t[1]:
                        nunres += 1
                elif t[0] == 'assert':
                    nassert += 1
        return {'bodies': nb, 'blocks': nblk, 'calls': ncall, 'unresolved_calls': nunres, 'asserts': nassert,
                'adts': len(self.adts), 'consts_statics': len(self.const_bodies)}

    # ---------- adts ----------
    def variants(self, adt):
        return {v['name']: v['idx'] for v in self.adts[adt]['variants']}

    def variant_names(self, adt):
        return {v['idx']: v['name'] for v in self.adts[adt]['variants']}

    def struct_fields(self, adt):
        return [f[0] for f in self.adts[adt]['variants'][0]['fields']]

    # ---------- per-body helpers ----------
    def blocks(self, path):
        return self.bodies[path]['mir']['blocks']

    def cfg(self, path, unwind=False):
        key = (path, unwind)
        if key not in self._cfg:
            blocks = self.blocks(path)
            S = {}
            for i, b in enumerate(blocks):
                if b['cleanup'] and not unwind:
                    continue
                S[i] = succs(b, unwind)
            self._cfg[key] = S
        return self._cfg[key]

    def preds(self, path):
        P = collections.defaultdict(set)
        for n, ss in self.cfg(path).items():
            for x in ss:
                P[x].add(n)
        return P

    def dominators(self, path):
        if path not in self._dom:
            self._dom[path] = dominators(self.cfg(path), 0)
        return self._dom[path]

    def postdominators(self, path):
        """post-dominators w.r.t. normal returns (virtual exit = -1); blocks that cannot reach a return
        (diverging) are post-dominated by everything (vacuous)."""
        if path not in self._pdom:
            S = self.cfg(path)
            R = collections.defaultdict(list)
            exits = []
            for n, ss in S.items():
                for x in ss:
                    R[x].append(n)
                if self.blocks(path)[n]['t'][0] == 'return':
                    exits.append(n)
            RS = {n: list(R.get(n, [])) for n in S}
            RS[-1] = exits
            self._pdom[path] = dominators(RS, -1)
        return self._pdom[path]

    def calls(self, path, include_cleanup=False):
        out = []
        for i, b in enumerate(self.blocks(path)):
            if b['cleanup'] and not include_cleanup:
                continue
            if b['t'][0] == 'call':
                out.append((i, b['t'][1]))
        return out

    def local_defs(self, path):
        """local -> list of (bb, kind, payload) for whole-local assignments and call destinations"""
        if path not in self._defs:
            defs = collections.defaultdict(list)
            for i, b in enumerate(self.blocks(path)):
                for st in b['s']:
                    if st[0] == 'assign' and not st[1]['p']:
                        defs[st[1]['l']].append((i, 'assign', st[2]))
                if b['t'][0] == 'call' and not b['t'][1]['dest']['p']:
                    defs[b['t'][1]['dest']['l']].append((i, 'call', b['t'][1]))
            self._defs[path] = defs
        return self._defs[path]

    def local_name(self, path, l):
        for n in self.bodies[path]['mir']['names']:
            if n[1]['l'] == l and not n[1]['p']:
                return n[0]
        return None

    def local_ty(self, path, l):
        return self.bodies[path]['mir']['locals'][l]

    # ---------- call graph ----------
    def callgraph(self):
        if self._cg is None:
            CG = collections.defaultdict(set)
            # fn items / closures coerced to fn pointers or boxed dyn Fn: targets of indirect calls
            indirect_targets = set()
            for p, b in self.fn_bodies.items():
                for blk in b['mir']['blocks']:
                    for st in blk['s']:
                        if st[0] != 'assign':
                            continue
                        rv = st[2]
                        if rv[0] == 'agg' and rv[1][0] == 'closure' and rv[1][1] in self.bodies:
                            CG[p].add(rv[1][1])
                        for c in iter_consts(rv):
                            if 'fn_path' in c and c['fn_path'] in self.fn_bodies:
                                CG[p].add(c['fn_path'])
                                indirect_targets.add(c['fn_path'])
                    t = blk['t']
                    if t[0] == 'call':
                        c = t[1]
                        r = callee_of(c)
                        if r in self.fn_bodies:
                            CG[p].add(r)
                        # formatting machinery: `{}` / `{:?}` / to_string() of a local type reach its Display / Debug impl
                        full = c.get('resolved_full') or c.get('callee_full') or ''
                        m = re.search(r'(new_display|new_debug|to_string)::<(.+)>$', full) or re.match(r'^<(.+) as std::string::(ToString)>::to_string$', full)
                        if m:
                            if m.lastindex == 2 and m.group(1) in ('new_display', 'new_debug', 'to_string'):
                                kind, ty = m.group(1), m.group(2)
                            else:
                                kind, ty = 'to_string', m.group(1)
                            ty = re.sub(r"^(&('\w+ )?(mut )?)+", '', ty.strip())
                            for tr in (['std::fmt::Debug'] if kind == 'new_debug' else ['std::fmt::Display']):
                                cand = '<%s as %s>::fmt' % (ty, tr)
                                if cand in self.fn_bodies:
                                    CG[p].add(cand)
                        for a in c['args']:
                            if 'const' in a and 'fn_path' in a['const'] and a['const']['fn_path'] in self.fn_bodies:
                                CG[p].add(a['const']['fn_path'])
            self._cg = CG
        return self._cg

    def reachable_from(self, roots, stop=()):
        CG = self.callgraph()
        seen = set()
        st = [r for r in roots if r in self.fn_bodies]
        while st:
            n = st.pop()
            if n in seen or n in stop:
                continue
            seen.add(n)
            for x in CG.get(n, ()):
                if x not in seen:
                    st.append(x)
        return seen

    def reverse_reaching(self, targets):
        """set of fn bodies from which any of `targets` is reachable (including the targets)"""
        CG = self.callgraph()
        R = collections.defaultdict(set)
        for p, cs in CG.items():
            for c in cs:
                R[c].add(p)
        seen = set()
        st = list(targets)
        while st:
            n = st.pop()
            if n in seen:
                continue
            seen.add(n)
            st.extend(R.get(n, ()))
        return seen

    def call_path(self, root, target_pred):
        """shortest call-graph path from root to a body satisfying target_pred (for reports)"""
        CG = self.callgraph()
        prev = {root: None}
        q = collections.deque([root])
        while q:
            n = q.popleft()
            if target_pred(n):
                path = []
                while n is not None:
                    path.append(n)
                    n = prev[n]
                return list(reversed(path))
            for x in sorted(CG.get(n, ())):
                if x not in prev:
                    prev[x] = n
                    q.append(x)
        return None

    # ---------- finding anchors ----------
    def find_fn(self, pred):
        return [p for p, b in self.fn_bodies.items() if pred(p, b)]

    def fn_sig(self, path):
        return self.bodies[path].get('ty', '')

    # ---------- constants ----------
    def const_value(self, c, fnpath):
        """value of a MIR constant operand as python: ('str', s) | ('int', n) | ('bool', b) | ('char', c) |
        ('enum', adt, variant_name) | ('fn', path) | ('static', path) | ('promoted', body) | None"""
        ty, rp = c['ty'], c['repr']
        if 'promoted' in c:
            b = self.bodies.get(fnpath)
            if b and 'promoted' in b and c['promoted'] < len(b['promoted']):
                return ('promoted', b['promoted'][c['promoted']])
            return None
        if rp.startswith('const '):
            rp = rp[6:]
        if ty == 'bool':
            return ('bool', rp.strip() == 'true')
        if ty.startswith('&') and ty.endswith('str') and rp.startswith('"'):
            return ('str', parse_rust_str(rp))
        if ty == 'char':
            return ('char', parse_rust_char(rp))
        if 'fn_path' in c:
            return ('fn', c['fn_path'])
        m = re.match(r'^(-?\d+)_?(usize|isize|u8|u16|u32|u64|u128|i8|i16|i32|i64|i128)$', rp)
        if m:
            return ('int', int(m.group(1)))
        if ty in self.adts:
            for v in self.adts[ty]['variants']:
                if rp.endswith('::' + v['name']) or rp == v['name']:
                    return ('enum', ty, v['name'])
        if 'unevaluated' in c:
            return ('static', c['unevaluated'])
        return None

    def promoted_value(self, pbody, fnpath, want=('str',)):
        """evaluate a promoted body to the literal(s) it holds (best effort): returns list of values"""
        out = []
        for blk in pbody['blocks']:
            for st in blk['s']:
                if st[0] == 'assign':
                    for c in iter_consts(st[2]):
                        v = self.const_value(c, fnpath)
                        if v is not None:
                            out.append(v)
                    rv = st[2]
                    if rv[0] == 'agg' and rv[1][0] == 'adt':
                        out.append(('enum', rv[1][1], rv[1][3]))
        return out

    def operand_literals(self, path, op, depth=0):
        """all literal values an operand may carry, following local copies/refs and promoteds"""
        vals = []
        for r in self.trace(path, op):
            if r[0] == 'const':
                v = self.const_value(r[3], path)
                if v is None:
                    continue
                if v[0] == 'promoted':
                    vals.extend(self.promoted_value(v[1], path))
                else:
                    vals.append(v)
        return vals

    # ---------- provenance (backward slice inside one body) ----------
    def trace(self, path, op, depth=0, seen=None, deep=False):
        """backward provenance of an operand/place: list of roots:
        ('const', repr, ty, constdict) | ('param', idx, fields) | ('call', callee, bb, fields, calldict) |
        ('agg', kind) | ('binop', op) | ('unop', op) | ('discr',) | ('local', l, fields) | ('other', kind)"""
        if seen is None:
            seen = set()
        if depth > 16:
            return [('deep',)]
        if 'const' in op:
            c = op['const']
            return [('const', c['repr'], c['ty'], c)]
        pl = op.get('copy') or op.get('move') or op
        if 'l' not in pl:
            return [('other', 'operand')]
        l = pl['l']
        flds = tuple(p[3] for p in pl['p'] if p[0] == 'field')
        k = (l, flds)
        if k in seen:
            return []
        seen.add(k)
        defs = self.local_defs(path)
        n_args = self.bodies[path]['mir']['arg_count']
        roots = []
        if 1 <= l <= n_args:
            roots.append(('param', l, flds))
        for (bb, kind, payload) in defs.get(l, []):
            if kind == 'call':
                cal = callee_of(payload)
                roots.append(('call', cal, bb, flds, payload))
                if deep:
                    for a in payload['args']:
                        roots.extend(self.trace(path, a, depth + 1, seen, deep))
                elif cal.endswith(PROV_PRESERVING_SUFFIXES) or 'Try>::branch' in cal or cal.endswith('::branch'):
                    for a in payload['args'][:1]:
                        roots.extend(self.trace(path, a, depth + 1, seen))
            else:
                rv = payload
                if rv[0] in ('use', 'cast'):
                    o = rv[1] if rv[0] == 'use' else rv[2]
                    for r in self.trace(path, o, depth + 1, seen, deep):
                        if r[0] == 'param' and flds:
                            roots.append(('param', r[1], tuple(r[2]) + flds))
                        else:
                            roots.append(r)
                elif rv[0] in ('ref', 'rawptr', 'copyderef', 'discr'):
                    p2 = rv[2] if rv[0] == 'ref' else rv[1]
                    f2 = tuple(p[3] for p in p2['p'] if p[0] == 'field')
                    if rv[0] == 'discr':
                        roots.append(('discr',))
                    sub = self.trace(path, {'copy': {'l': p2['l'], 'p': []}}, depth + 1, seen, deep)
                    for r in sub:
                        if r[0] == 'param':
                            roots.append(('param', r[1], tuple(r[2]) + f2 + flds))
                        elif r[0] == 'call':
                            roots.append(('call', r[1], r[2], tuple(r[3]) + f2 + flds, r[4]))
                        else:
                            roots.append(r)
                    if not sub:
                        roots.append(('local', p2['l'], f2 + flds))
                elif rv[0] == 'agg':
                    roots.append(('agg', rv[1]))
                    ops = rv[2]
                    if rv[1][0] == 'tuple' and flds and flds[0].isdigit() and int(flds[0]) < len(ops):
                        # field-sensitive for tuples: `_t.1` depends on the second operand only
                        ops = [ops[int(flds[0])]]
                    for o in ops:
                        roots.extend(self.trace(path, o, depth + 1, seen, deep))
                elif rv[0] == 'binop':
                    roots.append(('binop', rv[1]))
                    roots.extend(self.trace(path, rv[2], depth + 1, seen, deep))
                    roots.extend(self.trace(path, rv[3], depth + 1, seen, deep))
                elif rv[0] == 'unop':
                    roots.append(('unop', rv[1]))
                    roots.extend(self.trace(path, rv[2], depth + 1, seen, deep))
                else:
                    roots.append(('other', rv[0]))
        # partial writes into the local (field assignments) also feed it
        return roots

    def closure_site(self, q):
        """(parent function, block, captured operands) of the aggregate that builds closure q, or None"""
        if '::{closure#' not in q:
            return None
        parent = q.rsplit('::{closure#', 1)[0]
        if parent not in self.bodies:
            return None
        for bi, blk in enumerate(self.bodies[parent]['mir']['blocks']):
            for st in blk['s']:
                if st[0] == 'assign' and st[2][0] == 'agg' and st[2][1][0] == 'closure' and st[2][1][1] == q:
                    return parent, bi, st[2][2]
        return None

    def trace_env(self, path, op, deep=False, depth=0):
        """trace, with a closure's captured variables (fields of its environment parameter) replaced by their provenance in the
        enclosing function: a closure body is read as if it were written inline"""
        roots = self.trace(path, op, deep=deep)
        site = self.closure_site(path) if depth < 3 else None
        if not site:
            return roots
        parent, _, ops = site
        out = []
        for r in roots:
            if r[0] == 'param' and r[1] == 1 and r[2] and str(r[2][0]).isdigit() and int(r[2][0]) < len(ops):
                sub = self.trace_env(parent, ops[int(r[2][0])], deep=deep, depth=depth + 1)
                rest = tuple(r[2][1:])
                for x in sub:
                    if x[0] == 'param' and rest:
                        out.append(('param', x[1], tuple(x[2]) + rest))
                    else:
                        out.append(x)
            else:
                out.append(r)
        return out

    def closure_payload_roots(self, q, depth=0):
        """provenance (deep) of what closure q is applied to: the receiver of the combinator / adaptor call the closure is handed to in
        the enclosing function (`xs.iter().filter(..).for_each(|x| ..)`: x comes from xs)"""
        site = self.closure_site(q) if depth < 3 else None
        if not site:
            return []
        parent = site[0]
        out = []
        for i, c in self.calls(parent):
            if not c['args']:
                continue
            if not any(r[0] == 'agg' and r[1][0] == 'closure' and r[1][1] == q for a in c['args'][1:] for r in self.trace(parent, a)):
                continue
            rs = self.trace_env(parent, c['args'][0], deep=True)
            out += rs
            if any(r[0] == 'param' and r[1] >= 2 for r in rs):
                out += self.closure_payload_roots(parent, depth + 1)
        return out

    def span_of_call(self, c):
        sp = c.get('span') or {}
        return sp.get('callsite') or sp.get('at') or '?'


# ---------------- free helpers ----------------
def callee_of(c):
    return c.get('resolved') or c.get('callee') or '<indirect>'


def callee_full(c):
    return c.get('resolved_full') or c.get('callee_full') or callee_of(c)


def succs(blk, unwind=False):
    t = blk['t']
    k = t[0]
    if k == 'goto':
        return [t[1]]
    if k == 'switch':
        return [b for _, b in t[2]] + [t[3]]
    if k == 'drop':
        return [t[2]] + ([t[3]] if unwind and t[3] is not None else [])
    if k == 'assert':
        return [t[4]]
    if k == 'call':
        c = t[1]
        out = [c['target']] if c['target'] is not None else []
        if unwind and c['unwind'] is not None:
            out.append(c['unwind'])
        return out
    return []


def dominators(S, entry=0):
    """iterative dominator sets; nodes unreachable from entry get themselves only"""
    reach = set()
    st = [entry]
    while st:
        n = st.pop()
        if n in reach:
            continue
        reach.add(n)
        st.extend(S.get(n, []))
    nodes = [n for n in S if n in reach]
    if entry not in S:
        nodes.append(entry)
    preds = collections.defaultdict(set)
    for n in nodes:
        for x in S.get(n, []):
            preds[x].add(n)
    allset = set(nodes)
    dom = {n: allset for n in nodes}
    dom[entry] = {entry}
    # reverse post-order
    order = []
    seen = set()

    def dfs(n):
        stack = [(n, iter(S.get(n, [])))]
        seen.add(n)
        while stack:
            node, it = stack[-1]
            adv = False
            for x in it:
                if x not in seen and x in allset:
                    seen.add(x)
                    stack.append((x, iter(S.get(x, []))))
                    adv = True
                    break
            if not adv:
                order.append(node)
                stack.pop()
    dfs(entry)
    order.reverse()
    changed = True
    while changed:
        changed = False
        for n in order:
            if n == entry:
                continue
            ps = [dom[p] for p in preds[n] if p in dom]
            new = (set.intersection(*ps) if ps else set()) | {n}
            if new != dom[n]:
                dom[n] = new
                changed = True
    for n in S:
        if n not in dom:
            dom[n] = {n}
    return dom


def reach(S, src, avoid=()):
    seen = set()
    st = [src] if not isinstance(src, (list, set, tuple)) else list(src)
    while st:
        n = st.pop()
        if n in seen or n in avoid:
            continue
        seen.add(n)
        st.extend(S.get(n, []))
    return seen


def iter_consts(rv):
    """all constant dicts mentioned in an rvalue"""
    for x in rv[1:]:
        if isinstance(x, dict) and 'const' in x:
            yield x['const']
        elif isinstance(x, list):
            for y in x:
                if isinstance(y, dict) and 'const' in y:
                    yield y['const']


def iter_operands(rv):
    for x in rv[1:]:
        if isinstance(x, dict):
            yield x
        elif isinstance(x, list):
            for y in x:
                if isinstance(y, dict):
                    yield y


def place_fields(pl):
    return [(p[2], p[3]) for p in pl['p'] if p[0] == 'field']


def op_place(o):
    return o.get('copy') or o.get('move')


def parse_rust_str(rp):
    """Rust debug-formatted string literal -> python str"""
    assert rp.startswith('"')
    s = rp[1:rp.rindex('"')]
    out = []
    i = 0
    while i < len(s):
        ch = s[i]
        if ch == '\\' and i + 1 < len(s):
            n = s[i + 1]
            if n == 'n': out.append('\n'); i += 2
            elif n == 't': out.append('\t'); i += 2
            elif n == 'r': out.append('\r'); i += 2
            elif n == '0': out.append('\0'); i += 2
            elif n == '\\': out.append('\\'); i += 2
            elif n == '"': out.append('"'); i += 2
            elif n == "'": out.append("'"); i += 2
            elif n == 'x': out.append(chr(int(s[i + 2:i + 4], 16))); i += 4
            elif n == 'u':
                j = s.index('}', i)
                out.append(chr(int(s[i + 3:j], 16))); i = j + 1
            else:
                out.append(ch); i += 1
        else:
            out.append(ch); i += 1
    return ''.join(out)


def parse_rust_char(rp):
    rp = rp.strip()
    if rp.startswith("'") and rp.endswith("'"):
        inner = rp[1:-1]
        return parse_rust_str('"' + inner + '"') if inner != '"' else '"'
    return rp


def short(path):
    return path.split('::')[-1]
