"""debug helper: python3 -m dv.dump <substring of fn path>  -- pretty print MIR facts"""
import sys, glob, json, os
from . import extract, facts

def pl(p):
    s = '_%d' % p['l']
    for pr in p['p']:
        if pr[0] == 'deref': s = '(*%s)' % s
        elif pr[0] == 'field': s += '.%s' % pr[3]
        elif pr[0] == 'downcast': s += ' as %s' % pr[1]
        elif pr[0] == 'index': s += '[_%d]' % pr[1]
        else: s += '[%s]' % pr[0]
    return s
def op(o):
    if 'const' in o:
        c = o['const']
        return 'const %s%s' % (c['repr'][:60], ('(promoted %d)' % c['promoted']) if 'promoted' in c else '')
    if 'copy' in o: return pl(o['copy'])
    if 'move' in o: return 'move ' + pl(o['move'])
    return str(o)
def rv(r):
    k = r[0]
    if k == 'use': return op(r[1])
    if k == 'ref': return '&%s%s' % ('mut ' if r[1] == 'mut' else '', pl(r[2]))
    if k == 'agg': return '%s(%s)' % (r[1][1:] , ', '.join(op(x) for x in r[2]))
    if k == 'binop': return '%s(%s, %s)' % (r[1], op(r[2]), op(r[3]))
    if k == 'unop': return '%s(%s)' % (r[1], op(r[2]))
    if k == 'discr': return 'discr(%s)' % pl(r[1])
    if k == 'cast': return '%s as %s [%s]' % (op(r[2]), r[3], r[1][:30])
    if k == 'copyderef': return 'copyderef ' + pl(r[1])
    if k == 'rawptr': return '&raw ' + pl(r[1])
    return str(r)[:100]
def dump_body(F, p, mir=None):
    b = F.bodies[p]
    mir = mir or b['mir']
    print('=== %s  [%s] args=%d  %s' % (p, b['kind'], mir['arg_count'], mir['span']['at']))
    print('   names:', ', '.join('%s=%s' % (n[0], pl(n[1])) for n in mir['names']))
    for i, blk in enumerate(mir['blocks']):
        if blk['cleanup'] and '--cleanup' not in sys.argv: continue
        print(' bb%d%s:' % (i, ' (cleanup)' if blk['cleanup'] else ''))
        for st in blk['s']:
            if st[0] == 'assign': print('    %s = %s' % (pl(st[1]), rv(st[2])))
            elif st[0] == 'dead': pass
            else: print('    ', st)
        t = blk['t']
        if t[0] == 'call':
            c = t[1]
            print('    %s = %s(%s) -> bb%s   @%s' % (pl(c['dest']), facts.callee_of(c) if 'indirect' not in c else 'INDIRECT ' + op(c['func']),
                  ', '.join(op(a) for a in c['args']), c['target'], (c['span'].get('callsite') or c['span']['at']).split(' ')[0]))
        elif t[0] == 'switch': print('    switch %s %s else bb%d' % (op(t[1]), t[2], t[3]))
        elif t[0] == 'drop': print('    drop %s -> bb%d' % (pl(t[1]), t[2]))
        elif t[0] == 'assert': print('    assert %s -> bb%d' % (t[1], t[4]))
        else: print('    ', t[0], t[1:] if len(t) > 1 else '')
    if '--promoted' in sys.argv:
        for j, pm in enumerate(b.get('promoted', [])):
            print('  -- promoted %d' % j)
            for blk in pm['blocks']:
                for st in blk['s']:
                    if st[0] == 'assign': print('    %s = %s' % (pl(st[1]), rv(st[2])))

if __name__ == '__main__':
    fp, h, dt = extract.facts_path()
    F = facts.Facts(fp)
    pat = sys.argv[1]
    for p in F.bodies:
        if pat in p:
            if '--list' in sys.argv: print(p, F.bodies[p]['kind'])
            else: dump_body(F, p)
