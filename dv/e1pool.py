"""Run E1 configuration modes (in parallel processes, cached by facts hash + engine source hash)."""
import fcntl
import os
import subprocess
import sys
import time

from . import e1, extract

VERIF = os.path.dirname(os.path.dirname(os.path.abspath(__file__)))


def _one(F, h, mode):
    lockp = os.path.join(extract.CACHE, 'e1-%s-%s.lock' % (h, mode))
    with open(lockp, 'w') as lk:
        fcntl.flock(lk, fcntl.LOCK_EX)
        try:
            return e1.run_mode(F, mode, cache_key=h)
        finally:
            fcntl.flock(lk, fcntl.LOCK_UN)


def get_runs(F, h, modes):
    """returns {mode: result dict}. Missing modes are computed in parallel child processes."""
    if h in ('given', None):
        return {m: e1.run_mode(F, m) for m in modes}
    procs = []
    if len(modes) > 1:
        for m in modes[1:]:
            procs.append(subprocess.Popen([sys.executable, '-m', 'dv.e1pool', F.path, h, m], cwd=VERIF,
                                          stdout=subprocess.DEVNULL, stderr=subprocess.PIPE))
    out = {modes[0]: _one(F, h, modes[0])}
    for p in procs:
        _, err = p.communicate()
        if p.returncode != 0:
            raise RuntimeError('E1 child failed: ' + err.decode()[-2000:])
    for m in modes[1:]:
        out[m] = _one(F, h, m)
    return out


if __name__ == '__main__':
    from . import facts
    F = facts.Facts(sys.argv[1])
    _one(F, sys.argv[2], sys.argv[3])
