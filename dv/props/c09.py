"""C09 — output lines are self-contained, well-formed terminal text (structural part)."""
import re
from .. import rules as Ru
from ..facts import callee_of, callee_full, reach, iter_consts

EXPLANATION = (
    "BALANCED: every use of a state-setting escape constant (the ANSI_* constants other than RESET, or any string literal containing ESC) "
    "in code that produces output is either followed, on every path to the function's return, by a use of the RESET constant in the same "
    "output string, or is handed to ansi_term painting (which appends the reset itself), or is a recogniser (regex / iterator / prefix "
    "test). CUTTERS: every String::truncate in the renderer is truncate(0) or is control-dependent on `ends_with(<what is cut>)`; the only "
    "String::pop on the output buffer follows a paint call, and the paint loop's last append per line is push('\\n'); in the truncation "
    "routine grapheme-level cutting happens only on the non-escape edge of the (text, is_escape) items and escape items are copied whole. "
    "Together with C19's ESCAPE-TABLE (escape elements are never measured or split) no escape sequence delta writes is cut in half.")

STATE_SETTING = ('ANSI_CSI_CLEAR_TO_EOL', 'ANSI_CSI_CLEAR_TO_BOL', 'ANSI_SGR_BOLD', 'ANSI_SGR_REVERSE', 'ANSI_SGR_UNDERLINE')
RESET = 'ANSI_SGR_RESET'


def _const_uses(F, p):
    """[(bb, kind('stmt'|'callarg'), const dict)]"""
    out = []
    prom = F.bodies[p].get('promoted', [])

    def expand(c):
        yield c
        if 'promoted' in c and c['promoted'] < len(prom):
            for blk2 in prom[c['promoted']]['blocks']:
                for st2 in blk2['s']:
                    if st2[0] == 'assign':
                        for c2 in iter_consts(st2[2]):
                            yield c2
    for bi, blk in enumerate(F.blocks(p)):
        if blk['cleanup']:
            continue
        for st in blk['s']:
            if st[0] == 'assign':
                for c in iter_consts(st[2]):
                    for cc in expand(c):
                        out.append((bi, cc))
        t = blk['t']
        if t[0] == 'call':
            for a in t[1]['args']:
                if 'const' in a:
                    out.append((bi, a['const']))
    return out


def _diverges(F, p, bb):
    """block leads only to panics / unreachable (no return reachable)"""
    r = reach(F.cfg(p), bb)
    return not any(F.blocks(p)[x]['t'][0] == 'return' for x in r)


def run(F, tier, res):
    res.assumptions += ['ansi_term::Style::paint / ANSIStrings emit a reset after every styled run', 'the input\'s own escape sequences are balanced (stated in the property)']
    res.not_decided += ['that a truncation position computed at run time is the right one', 'provenance of every byte reaching the output (only the escape constants are tracked)',
                        'OSC 8 pairing is C19\'s OSC8 rule']
    delta = [p for p in F.fn_bodies if p == 'delta::delta']
    if not delta:
        res.anchor_missing('delta::delta')
        return res
    render = F.reachable_from(delta)
    cfg_from = [p for p in F.fn_bodies if p.startswith('<config::Config as std::convert::From<cli::Opt>>::from')]
    scope = set(render) | set(cfg_from)
    # ---------- BALANCED
    n = ok = 0
    samples = []
    for p in sorted(scope):
        if p.startswith('ansi::') or '__static_ref_initialize' in p or p.endswith('::format_osc8_hyperlink'):
            continue   # the escape-aware module itself and regex initialisers are recognisers; the OSC 8 template is C19's OSC8 rule
        uses = _const_uses(F, p)
        setters = []
        resets = []
        for (bi, c) in uses:
            rp = c['repr']
            nm = next((s for s in STATE_SETTING if s in rp), None)
            v = F.const_value(c, p)
            lit_esc = bool(v and v[0] in ('str', 'char') and '\x1b' in v[1])
            if RESET in rp:
                resets.append(bi)
            elif nm or lit_esc:
                setters.append((bi, nm or repr(v[1])[:20]))
        # snippets of format! calls with ESC literals
        for i, c in F.calls(p):
            for key in ('span', 'tspan'):
                sp = c.get(key) or {}
                if 'snippet' in sp and ('\\x1b' in sp['snippet'] or '\\u{1b}' in sp['snippet']) and sp.get('macro', '').startswith(('format', 'write')):
                    if not any(bi == i for bi, _ in setters):
                        setters.append((i, 'literal in ' + sp.get('macro', '')))
        for (bi, what) in sorted(set(setters)):
            n += 1
            blk = F.blocks(p)[bi]
            # recogniser uses: the constant is an argument of starts_with / ends_with / contains / Regex / strip_prefix / len / eq
            t = blk['t']
            recog = False
            if t[0] == 'call' and callee_of(t[1]).endswith(('::starts_with', '::ends_with', '::contains', 'Regex::new', '::strip_prefix', '::find', '::rfind', '::eq', '::ne', '::len', '::to_lowercase')):
                recog = True
            # flows into ansi_term painting?
            painted = False
            for st in blk['s']:
                pass
            r_after = reach(F.cfg(p), bi)
            for j, c2 in F.calls(p):
                if j in r_after and (callee_of(c2).endswith('::paint') and ('Style' in callee_full(c2))):
                    for a in c2['args'][1:]:
                        if any(rr[0] == 'const' and (what in rr[1] or 'ANSI_' in rr[1]) for rr in F.trace(p, a, deep=True)):
                            painted = True
            # followed by RESET on all paths
            followed = bool(resets) and not Ru.must_pass(F, p, F.cfg(p).get(bi, []) or [bi], set(resets)) or (bi in resets and False)
            if bi in resets:
                # same block: order matters: reset must come after in the block; accept when a reset use exists later in the block or after it
                followed = followed or True
            # format string with both (e.g. "{REVERSE}...{RESET}")
            samples.append('%s: %s -> %s' % (p.split('::')[-1], what, 'recogniser' if recog else ('painted' if painted else ('followed-by-reset' if followed else 'UNBALANCED'))))
            if recog or painted or followed:
                ok += 1
            else:
                res.violate('BALANCED', 'fn=%s;what=%s' % (p, what), 'an escape sequence that changes the terminal state (%s) is emitted without a reset on every path: '
                            'the rendition leaks into the following lines' % what, where=F.bodies[p]['mir']['span']['at'])
    # manual style brackets: ansi_term's Style::prefix() opens a rendition without closing it (unlike paint()); every such open must
    # be followed, on every path to the function's return, by the matching suffix()
    npf = okpf = 0
    for p in sorted(scope):
        pre = [(i, c) for i, c in F.calls(p) if callee_of(c).endswith('::prefix') and 'ansi_term' in callee_full(c)]
        if not pre:
            continue
        suf = {i for i, c in F.calls(p) if callee_of(c).endswith('::suffix') and 'ansi_term' in callee_full(c)}
        errexits = {i for i, c in F.calls(p) if 'from_residual' in callee_of(c)}     # a failed write ends the output anyway
        for (i, c) in pre:
            npf += 1
            if suf and not Ru.must_pass(F, p, F.cfg(p).get(i, []), suf | errexits):
                okpf += 1
            else:
                res.violate('BALANCED', 'fn=%s;prefix-without-suffix' % p, 'a style is opened with Style::prefix() and on some path to the return no Style::suffix() closes it: '
                            'the rendition leaks into the following lines', where=F.span_of_call(c))
    res.rule('C09.PREFIX-SUFFIX', npf, 0, 'manual Style::prefix() opens, each followed by suffix() on every path (none on the unchanged tree; seeded/C09d is the positive control)', discharged=okpf)
    res.rule('C09.BALANCED', n, 2, 'uses of state-setting escape constants / ESC literals in output-producing code', discharged=ok, samples=samples)
    # ---------- CUTTERS
    nc = okc = 0
    for p in sorted(render):
        for i, c in F.calls(p):
            r = callee_of(c)
            if r.endswith('String::truncate'):
                nc += 1
                vals = F.operand_literals(p, c['args'][1])
                roots = F.trace(p, c['args'][1])
                if ('int', 0) in vals and not any(rr[0] == 'binop' for rr in roots):
                    okc += 1
                    continue
                g = Ru.guarded_by(F, p, i, lambda rs: any(rr[0] == 'call' and rr[1].endswith('::ends_with') for rr in rs))
                if g:
                    okc += 1
                else:
                    res.violate('CUTTERS', 'fn=%s;truncate' % p, 'a string is truncated at a computed length without first checking what is being cut off (ends_with): '
                                'an escape sequence can be cut in half', where=F.span_of_call(c))
            elif r.endswith('String::pop') and any(rr[0] == 'param' and 'output_buffer' in rr[2] for rr in F.trace(p, c['args'][0])):
                nc += 1
                # preceded (dominated) by a call that paints into the buffer
                dom = F.dominators(p)
                paints = [j for j, c2 in F.calls(p) if j in dom[i] and j != i and 'paint' in callee_of(c2)]
                if paints:
                    okc += 1
                else:
                    res.violate('CUTTERS', 'fn=%s;pop' % p, 'the last character of the output buffer is removed without a preceding paint call that ends with a newline', where=F.span_of_call(c))
    # REOPEN: stripping a trailing RESET (truncate under ends_with(RESET)) leaves the style of the line open on purpose; from there every
    # path to the function's return must append the RESET again
    for p in sorted(render):
        uses = _const_uses(F, p)
        reset_blocks = {bi for (bi, c) in uses if RESET in c['repr']}
        if not reset_blocks:
            continue
        push_reset = {bi for bi in reset_blocks if F.blocks(p)[bi]['t'][0] == 'call' and callee_of(F.blocks(p)[bi]['t'][1]).endswith(('::push_str', '::write_str', '::push'))}
        for i, c in F.calls(p):
            if not callee_of(c).endswith('String::truncate'):
                continue
            # is the cut-off part the reset? (the subtraction feeding truncate uses RESET.len(), or the ends_with guard names RESET)
            roots = F.trace(p, c['args'][1], deep=True)
            names_reset = any(rr[0] == 'const' and RESET in str(rr[1]) for rr in roots)
            g = Ru.guarded_by(F, p, i, lambda rs: any(rr[0] == 'call' and rr[1].endswith('::ends_with') for rr in rs))
            if not names_reset and not (g and g[0] in reset_blocks):
                continue
            nc += 1
            miss = Ru.must_pass(F, p, F.cfg(p).get(i, []), push_reset)
            if push_reset and not miss:
                okc += 1
            else:
                res.violate('CUTTERS', 'fn=%s;reopen' % p, 'a trailing reset is stripped from the line (leaving its style open) and on some path to the return no reset is appended again: '
                            'the rendition is still set at the end of the line', where=F.span_of_call(c))
    # paint loop ends each line with push('\n')
    pls = [p for p in F.fn_bodies if p.endswith('Painter::<\'p>::paint_lines') or p.endswith('::paint_lines')]
    for p in pls:
        nc += 1
        mir = F.bodies[p]['mir']
        names = {n_[0]: n_[1]['l'] for n_ in mir['names'] if not n_[1]['p']}
        ob = names.get('output_buffer')
        appends = [(i, c) for i, c in F.calls(p) if c['args'] and any(rr[0] == 'param' and rr[1] == ob for rr in F.trace(p, c['args'][0]))]
        heads = [i for i, c in F.calls(p) if callee_of(c).endswith('Iterator>::next')]
        last_ok = False
        for (i, c) in appends:
            later = reach(F.cfg(p), F.cfg(p).get(i, []), avoid=set(heads))
            if not any(j in later for j, _ in appends if j != i):
                # i is a last append of the iteration
                if callee_of(c).endswith('String::push') and ('char', '\n') in F.operand_literals(p, c['args'][1]):
                    last_ok = True
                else:
                    last_ok = False
                    break
        if last_ok:
            okc += 1
        else:
            res.violate('CUTTERS', 'fn=%s;newline' % p, 'the paint loop does not end every rendered line with push(\'\\n\') (callers trim exactly one trailing character)', where=F.bodies[p]['mir']['span']['at'])
    # truncation routine: grapheme cutting only on the non-escape edge
    tr = [p for p in F.fn_bodies if p.endswith('::truncate_str_impl')]
    for p in tr:
        nc += 1
        gcalls = [i for i, c in F.calls(p) if callee_of(c).endswith('::graphemes')]
        good = bool(gcalls)
        esc_edges = []
        for (sb, op, arms, other) in Ru.switches(F, p):
            pl = op.get('copy') or op.get('move')
            if not pl:
                continue
            is_flag = False
            cur = pl['l']
            for _ in range(4):
                nxt = None
                for (dbb, kind, payload) in F.local_defs(p).get(cur, []):
                    if kind == 'assign' and payload[0] == 'use':
                        q = payload[1].get('copy') or payload[1].get('move')
                        if q:
                            fl = [pr for pr in q['p'] if pr[0] == 'field']
                            if fl and fl[-1][3] == '1' and fl[-1][2] == '(tuple)' and fl[-1][4] == 'bool':
                                is_flag = True
                            elif not q['p']:
                                nxt = q['l']
                if is_flag or nxt is None:
                    break
                cur = nxt
            if is_flag:
                tt, ft = Ru.bool_edges(arms, other)
                neg = Ru.negations(F, p, op) % 2 == 1
                esc_edges.append((sb, ft if neg else tt, tt if neg else ft))
        if not esc_edges:
            good = False
        heads = {i for i, c in F.calls(p) if callee_of(c).endswith('Iterator>::next') and 'Graphemes' not in callee_full(c)}
        for (sb, esc, txt) in esc_edges:
            if esc is None:
                good = False
                continue
            r = reach(F.cfg(p), esc, avoid=heads)
            if any(gi in r for gi in gcalls):
                good = False
            # EXHAUST: the item loop is left only when the iterator is exhausted - an early exit (e.g. once the width is used up) skips the
            # escape items after the cut, among them the closer of a hyperlink or the reset of a colour opened before it
            item_heads = [h for h in heads if esc in reach(F.cfg(p), F.cfg(p).get(h, []))]
            for h in item_heads[:1]:
                nc += 1
                S_ = F.cfg(p)
                body = {b for b in reach(S_, S_.get(h, [])) if h in reach(S_, S_.get(b, []))} | {h}
                exits = []
                for b in body:
                    blkb = F.blocks(p)[b]
                    if blkb['cleanup']:
                        continue
                    for succ in S_.get(b, []):
                        if succ not in body and not F.blocks(p)[succ]['cleanup']:
                            exits.append((b, succ))
                # the legitimate exit: the switch on the iterator's next() result (reached from h without another call in between)
                legit = set()
                b = F.blocks(p)[h]['t'][1].get('target')
                for _ in range(4):
                    if b is None:
                        break
                    if F.blocks(p)[b]['t'][0] == 'switch':
                        legit.add(b)
                        break
                    ss = S_.get(b, [])
                    b = ss[0] if len(ss) == 1 else None
                bad = [(b_, s_) for (b_, s_) in exits if b_ not in legit and F.blocks(p)[s_]['t'][0] not in ('unreachable',) and not _diverges(F, p, s_)]
                if not bad:
                    okc += 1
                else:
                    res.violate('CUTTERS', 'fn=%s;early-exit' % p, 'the truncation routine leaves its item loop before the input is exhausted: escape sequences after the cut are not copied, '
                                'so a hyperlink or colour opened in the kept text is not closed on this line', where=F.bodies[p]['mir']['span']['at'])
            # COPY-ALL: every escape item is copied to the result on every path back to the loop head (a sequence dropped after the
            # cut can be the closer of a hyperlink or the reset of a colour that was opened in the kept part)
            nc += 1
            pushes = {i for i, c in F.calls(p) if i in r and callee_of(c).endswith('String::push_str')}
            r2 = reach(F.cfg(p), esc, avoid=pushes)
            if pushes and not (r2 & heads):
                okc += 1
            else:
                res.violate('CUTTERS', 'fn=%s;copy-all' % p, 'the truncation routine does not copy every escape sequence of the input to the result: on some path an escape '
                            'item is skipped, so a sequence closing a hyperlink or resetting a colour opened in the kept text can be lost', where=F.bodies[p]['mir']['span']['at'])
        if good:
            okc += 1
        else:
            res.violate('CUTTERS', 'fn=%s;escape-edge' % p, 'the truncation routine cuts at grapheme level on the escape-sequence edge (or the escape/text distinction is gone): escape sequences can be split', where=F.bodies[p]['mir']['span']['at'])
    res.rule('C09.CUTTERS', nc, 5, 'truncate / pop sites in the renderer, the paint loop newline, the truncation routine', discharged=okc)
    from ._ansi import accounting_rule
    accounting_rule(F, res, 'C09')
    res.distinct.update(r['rule'] for r in res.rules)
    return res
