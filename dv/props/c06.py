"""C06 — within-line emphasis (structural clauses only: who gets emphasis at all, once-per-line bookkeeping, pairs never cross)."""
from .. import rules as Ru
from ..facts import callee_of, callee_full, reach

EXPLANATION = (
    "C06 is mostly a statement about which characters a dynamic-programming alignment marks (values; not decided). Three of its clauses are "
    "visible in the shape of edits::infer_edits and are decided. UNPAIRED: 'lines that have no partner carry no emphasis at all' - every "
    "annotated line that infer_edits builds itself (rather than receiving it from the pair annotator) is tagged only with elements of the "
    "per-line no-op operation vectors (parameters noop_deletions / noop_insertions), never with the emphasis operations (deletion / "
    "insertion). ONCE: every push of an annotated minus or plus line is followed, before the next such push and on every path, by exactly "
    "one push onto the line alignment, so each line has one alignment entry. MONOTONE: 'pairs never cross' - the plus-line cursor used in "
    "alignment entries is only ever changed by += 1, every alignment entry that mentions it is followed by that increment before the next "
    "entry, and the minus index comes from enumerate(); so both components of successive entries are strictly increasing. ZERO: unchanged "
    "lines are painted with the zero style only (no edit inference is involved). Not decided: soundness / minimality of the token "
    "alignment, the distance threshold arithmetic, whitespace coalescing, byte ranges of the annotations.")


def run(F, tier, res):
    res.assumptions += ['edits::annotate is the only producer of emphasis tags for paired lines (its correctness is value-level)']
    res.not_decided += ['that deleting the emphasised parts of a pair leaves the same text; contiguity / size of the emphasis; distance normalisation and thresholds; '
                        'tie-breaking of the alignment; whitespace coalescing (all value-level: exhaustive small-alphabet testing is the right tool, not static analysis)']
    ie = [q for q in F.fn_bodies if q == 'edits::infer_edits' or q.endswith('::edits::infer_edits')]
    if not ie:
        res.anchor_missing('edits::infer_edits')
        return res
    p = ie[0]
    mir = F.bodies[p]['mir']
    names = {n[0]: n[1]['l'] for n in mir['names'] if not n[1]['p']}
    need = ('noop_deletions', 'deletion', 'noop_insertions', 'insertion')
    if not all(k in names for k in need):
        res.anchor_missing('parameters of infer_edits: %s' % (need,))
        return res
    P_NOOP = {names['noop_deletions'], names['noop_insertions']}
    P_EMPH = {names['deletion'], names['insertion']}
    S = F.cfg(p)
    calls = dict(F.calls(p))
    # classify the Vec pushes by the element type
    ann_push, al_push = [], []
    for i, c in calls.items():
        if not callee_of(c).endswith('Vec::<T, A>::push') and not callee_of(c).endswith('::push'):
            continue
        full = callee_full(c)
        if 'Vec::<std::vec::Vec<(' in full:
            ann_push.append(i)
        elif 'Vec::<(std::option::Option<usize>, std::option::Option<usize>)>' in full:
            al_push.append(i)
    if len(ann_push) < 3 or len(al_push) < 3:
        res.anchor_missing('pushes of annotated lines / alignment entries in infer_edits (found %d / %d)' % (len(ann_push), len(al_push)))
        return res
    # ---- UNPAIRED
    n = ok = 0
    samples = []
    for i in sorted(ann_push):
        c = calls[i]
        roots = F.trace(p, c['args'][1], deep=True)
        from_annotator = any(r[0] == 'call' and r[1].endswith('::annotate') for r in F.trace(p, c['args'][1]))
        if from_annotator:
            samples.append('bb%d: annotated by the pair annotator (paired line)' % i)
            continue
        n += 1
        # `vec![..]` is lowered to Box::new_uninit + a store through the box pointer + box_assume_init_into_vec: read the stored array
        elems = []
        for r in F.trace(p, c['args'][1]):
            if r[0] == 'call' and 'box_assume_init_into_vec' in r[1]:
                for st in F.blocks(p)[r[2]]['s']:
                    if st[0] == 'assign' and st[1]['p'] and st[1]['p'][0][0] == 'deref' and st[2][0] == 'agg' and st[2][1][0] == 'array':
                        elems += list(st[2][2])
        roots = list(roots)
        for e in elems:
            roots += F.trace(p, e, deep=True)
        # a vector created empty and filled through `&mut` by a helper (`fill(&mut line, op, text)`): the tags are the other arguments
        pl_ = c['args'][1].get('move') or c['args'][1].get('copy')
        if pl_ and not pl_['p'] and any(r[0] == 'call' and r[1].endswith(('Vec::<T>::new', '::with_capacity', 'Vec::<T, A>::new')) for r in F.trace(p, c['args'][1])):
            holders = {pl_['l']}
            for (dbb, kind, payload) in F.local_defs(p).get(pl_['l'], []):
                if kind == 'assign' and payload[0] == 'use':
                    q_ = payload[1].get('move') or payload[1].get('copy')
                    if q_ and not q_['p']:
                        holders.add(q_['l'])
            for j, c2 in calls.items():
                if j == i:
                    continue
                takes = False

                def borrows_holder(l, depth=0):
                    if l in holders:
                        return True
                    if depth > 4:
                        return False
                    for (dbb, kind, payload) in F.local_defs(p).get(l, []):
                        if kind == 'assign' and payload[0] == 'ref' and all(pr[0] == 'deref' for pr in payload[2]['p']):
                            if borrows_holder(payload[2]['l'], depth + 1):
                                return True
                        if kind == 'assign' and payload[0] == 'use':
                            q2 = payload[1].get('move') or payload[1].get('copy')
                            if q2 and all(pr[0] == 'deref' for pr in q2['p']) and borrows_holder(q2['l'], depth + 1):
                                return True
                    return False
                for a in c2['args']:
                    al = a.get('move') or a.get('copy')
                    if al and not al['p'] and al['l'] not in holders and borrows_holder(al['l']):
                        takes = True
                if takes:
                    for a in c2['args']:
                        roots += F.trace(p, a, deep=True)
        params = {r[1] for r in roots if r[0] == 'param' and not r[2]}
        if params & P_EMPH:
            res.violate('UNPAIRED', 'fn=%s;emph-on-unpaired' % p, 'a line that infer_edits emits without a partner is tagged with an emphasis operation (deletion / insertion parameter): '
                        'unpaired lines must carry no emphasis', where=F.span_of_call(c))
        elif params & P_NOOP:
            ok += 1
            samples.append('bb%d: self-built line tagged from the no-op vectors only' % i)
        else:
            res.violate('UNPAIRED', 'fn=%s;unknown-tag' % p, 'cannot see where the operation tag of a self-built (unpaired) line comes from; expected an element of noop_deletions / noop_insertions',
                        where=F.span_of_call(c))
    res.rule('C06.UNPAIRED', n, 2, 'annotated lines built by infer_edits itself (unpaired lines): tagged from the no-op vectors only', discharged=ok, samples=samples)
    # ---- ONCE: after each annotated-line push, an alignment push comes before the next annotated-line push of the same side / loop head or return
    n2 = ok2 = 0
    rets = Ru.returns(F, p)
    for i in sorted(ann_push):
        n2 += 1
        # paired case pushes both sides then one alignment entry: allow another annotated push in between only if it is the other vector
        r = reach(S, S.get(i, []), avoid=set(al_push))
        bad_next = [j for j in ann_push if j in r and j != i and F.trace(p, calls[j]['args'][0]) == F.trace(p, calls[i]['args'][0])]
        if any(x in r for x in rets) or bad_next or i in r:
            res.violate('ONCE', 'fn=%s;bb-class=%s' % (p, 'minus' if any(rr[0] == 'local' for rr in F.trace(p, calls[i]['args'][0])) else 'line'),
                        'an annotated line is pushed and, on some path, no alignment entry follows before the next line of the same side (or the return): '
                        'lines and alignment entries get out of step', where=F.span_of_call(calls[i]))
        else:
            ok2 += 1
    res.rule('C06.ONCE', n2, 2, 'pushes of annotated lines, each followed by an alignment entry before the next push on the same vector', discharged=ok2)
    # ---- MONOTONE
    n3 = ok3 = 0
    pi = names.get('plus_index')
    if pi is None:
        res.anchor_missing('plus_index cursor in infer_edits')
        return res
    incs, other_writes = [], []
    for bi, blk in enumerate(F.blocks(p)):
        if blk['cleanup']:
            continue
        for st in blk['s']:
            if st[0] == 'assign' and st[1]['l'] == pi and not st[1]['p']:
                rv = st[2]
                # `plus_index = move (_t.0)` after `_t = AddWithOverflow(plus_index, 1)`; or the initial `= 0`
                if rv[0] == 'use' and 'const' in rv[1]:
                    if F.const_value(rv[1]['const'], p) == ('int', 0):
                        continue
                    other_writes.append(bi)
                    continue
                roots = F.trace(p, rv[1]) if rv[0] == 'use' else []
                lits = F.operand_literals(p, rv[1]) if rv[0] == 'use' else []
                if any(r[0] == 'binop' and r[1].startswith('Add') for r in roots) and ('int', 1) in lits and not any(r[0] in ('call', 'param') for r in roots):
                    incs.append(bi)
                else:
                    other_writes.append(bi)
    n3 += 1
    if other_writes or not incs:
        res.violate('MONOTONE', 'fn=%s;cursor-writes' % p, 'the plus-line cursor is assigned something other than its own value + 1: alignment pairs may cross or repeat', where=mir['span']['at'])
    else:
        ok3 += 1
    for i in sorted(al_push):
        c = calls[i]
        uses_cursor = any(r[0] == 'local' and False for r in []) or _mentions_local(F, p, c['args'][1], pi)
        if not uses_cursor:
            continue
        n3 += 1
        r = reach(S, S.get(i, []), avoid=set(incs))
        nxt = [j for j in al_push if j in r]
        if nxt or any(x in r for x in rets):
            res.violate('MONOTONE', 'fn=%s;entry-without-increment' % p, 'an alignment entry naming plus line k is not followed by k += 1 before the next entry (or the return): '
                        'the same plus line can be paired twice / pairs can cross', where=F.span_of_call(c))
        else:
            ok3 += 1
    # minus index from enumerate
    n3 += 1
    mi = names.get('minus_index')
    enum_ok = False
    if mi is not None:
        for (dbb, kind, payload) in F.local_defs(p).get(mi, []):
            if kind == 'assign' and payload[0] == 'use':
                q = payload[1].get('copy') or payload[1].get('move')
                if q and any(r[0] == 'call' and r[1].endswith('Iterator>::next') and 'Enumerate' in callee_full(r[4]) for r in F.trace(p, {'copy': {'l': q['l'], 'p': []}})):
                    enum_ok = True
    if enum_ok:
        ok3 += 1
    else:
        res.violate('MONOTONE', 'fn=%s;minus-index' % p, 'the minus index of alignment entries is not the enumerate() counter of the minus-lines loop', where=mir['span']['at'])
    res.rule('C06.MONOTONE', n3, 3, 'plus cursor only incremented by one; every entry naming it followed by the increment; minus index from enumerate()', discharged=ok3)
    # ---- THRESHOLD: a candidate partner is rejected only by the distance test ("pairing honours the configured maximum distance";
    # with the maximum at 1 every candidate must be accepted, so no other path may skip one)
    n5 = ok5 = 0
    cons = names.get('considered')
    thr_params = {names.get('max_line_distance'), names.get('max_line_distance_for_naively_paired_lines')} - {None}
    if cons is None or not thr_params:
        res.anchor_missing('`considered` counter / distance threshold parameters of infer_edits')
    else:
        thr_sw = []
        for (sb, op, arms, other) in Ru.switches(F, p):
            roots = F.trace(p, op)
            if any(r[0] == 'binop' and r[1] in ('Le', 'Lt', 'Ge', 'Gt') for r in roots):
                from .c20 import _find_binop_rvalue
                rv = _find_binop_rvalue(F, p, op)
                if rv is None:
                    continue
                ps = {r[1] for o in rv[2:4] for r in F.trace(p, o) if r[0] == 'param' and not r[2]}
                if ps & thr_params:
                    tt, ft = Ru.bool_edges(arms, other)
                    if Ru.negations(F, p, op) % 2 == 1:
                        tt, ft = ft, tt
                    # `distance <= max` : rejected on the false edge; `distance > max`: on the true edge
                    le = rv[1] in ('Le', 'Lt')
                    dist_left = not any(r[0] == 'param' and r[1] in thr_params for r in F.trace(p, rv[2]))
                    reject = ft if (le == dist_left) else tt
                    thr_sw.append((sb, reject))
        for bi, blk in enumerate(F.blocks(p)):
            if blk['cleanup']:
                continue
            for st in blk['s']:
                if st[0] == 'assign' and st[1]['l'] == cons and not st[1]['p'] and not (st[2][0] == 'use' and 'const' in st[2][1]):
                    n5 += 1
                    if any(e is not None and (Ru.edge_dominates(F, p, sb, e, bi) or e == bi) for sb, e in thr_sw):
                        ok5 += 1
                    else:
                        res.violate('THRESHOLD', 'fn=%s;reject-without-distance-test' % p, 'a candidate partner line is skipped (`considered` advanced) on a path that has not failed the distance test: '
                                    'pairing then depends on something other than the configured maximum distance (with the maximum at 1 the i-th removed line must pair with the i-th added line)',
                                    where=mir['span']['at'])
    res.rule('C06.THRESHOLD', n5, 1, 'rejections of a candidate partner, each on the failing edge of the distance comparison', discharged=ok5)
    # ---- ZERO: the zero-line painter uses zero_style and does not go through edit inference
    n4 = ok4 = 0
    pz = [q for q in F.fn_bodies if q.endswith('::paint_zero_line')]
    for q in pz:
        n4 += 1
        reach_fns = F.reachable_from([q])
        if any(x == p or x.endswith('::annotate') for x in reach_fns):
            res.violate('ZERO', 'fn=%s' % q, 'painting an unchanged line reaches the edit-inference code: unchanged lines must carry no emphasis', where=F.bodies[q]['mir']['span']['at'])
        else:
            ok4 += 1
    res.rule('C06.ZERO', n4, 1, 'the unchanged-line painter does not reach infer_edits / annotate', discharged=ok4)
    res.distinct.update(r['rule'] for r in res.rules)
    return res


def _mentions_local(F, p, o, local):
    """does the operand's (shallow, aggregate-following) provenance copy from `local`?"""
    seen = set()
    work = [o]
    while work:
        x = work.pop()
        pl = x.get('move') or x.get('copy')
        if not pl:
            continue
        if pl['l'] == local:
            return True
        if pl['l'] in seen:
            continue
        seen.add(pl['l'])
        for (dbb, kind, payload) in F.local_defs(p).get(pl['l'], []):
            if kind == 'assign':
                rv = payload
                for y in rv[1:]:
                    if isinstance(y, dict):
                        work.append(y)
                    elif isinstance(y, list):
                        work.extend(z for z in y if isinstance(z, dict))
    return False
