"""C13 — option values resolve by the documented precedence, deterministically (structural part)."""
from .. import rules as Ru
from .. import e4
from ..facts import callee_of, callee_full, reach

EXPLANATION = (
    "MIR rules on the option machinery. LOOKUP: in the generic per-option lookup the main-section GitConfig::get is never reachable after the "
    "feature loop and its Some-edge returns without entering the loop; the loop iterates Rev<SplitWhitespace> (last-listed feature first); in "
    "the per-feature lookup the custom-section get precedes the builtin table lookup the same way. CLI-WINS: every write to a field of cli::Opt "
    "in set_options (and the light/dark/syntax-theme helper) is control-dependent on the false edge of user_supplied_option(\"<that field>\"), "
    "except an explicit table of documented forced/derived values. PHASES: in gather_features the four sources are gathered in the documented "
    "order (named features, CLI flags, gitconfig features, gitconfig flags) - no earlier phase is reachable from a later one. NO-GITCONFIG: the "
    "raw config accessors are called only from GitConfig::get under `self.enabled`, `enabled := false` is guarded by opt.no_gitconfig and precedes "
    "every lookup in set_options; GIT_CONFIG_PARAMETERS entries are consulted before the file config in every typed accessor. DETERMINISM: E4.")

OPT = 'cli::Opt'
# writes to Opt fields that are not (and need not be) guarded by user_supplied_option(<field>): field -> reason
EXCEPTIONS = {
    'side_by_side': 'forced to false under --color-only (C02-a)',
    'file_decoration_style': 'forced to "none" under --color-only (C02-a)',
    'commit_decoration_style': 'forced to "none" under --color-only (C02-a)',
    'hunk_header_decoration_style': 'forced to "none" under --color-only (C02-a)',
    'navigate': 'navigate |= DELTA_NAVIGATE env (documented)',
    'syntax_theme': 'taken from BAT_THEME when not given (guarded by is_none); the option write proper is guarded',
    'features': 'the assembled feature list (gather_features)',
    'computed': 'derived values (widths, colour mode, paging mode, ...)',
}


def _closure_calls(F, q, depth=0):
    """all calls made inside closure q (and the closures it passes on)"""
    out = []
    if q not in F.fn_bodies or depth > 3:
        return out
    for j, c2 in F.calls(q):
        out.append(dict(c2, _fn=q))
        for a in c2['args']:
            for r in F.trace(q, a):
                if r[0] == 'agg' and r[1][0] == 'closure':
                    out += _closure_calls(F, r[1][1], depth + 1)
    return out


def _bb_of_calls(F, p, pred):
    """call sites of p satisfying pred; a call made inside a closure counts at the block of p where the closure is handed to its
    consumer (and_then / map / find_map / ...), with the consumer call standing in for it (closure bodies are treated as inlined)"""
    out = [(i, c) for i, c in F.calls(p) if pred(callee_of(c), c)]
    for i, c in F.calls(p):
        for a in c['args']:
            for r in F.trace(p, a):
                if r[0] == 'agg' and r[1][0] == 'closure':
                    for c2 in _closure_calls(F, r[1][1]):
                        try:
                            hit = pred(callee_of(c2), c2)
                        except Exception:
                            hit = False
                        if hit and (i, c) not in out:
                            out.append((i, c))
    return out


def run(F, tier, res):
    res.assumptions += ['clap reports ValueSource::CommandLine exactly for options given on the command line',
                        'builtin feature tables and git2 behave as documented']
    res.not_decided += ['the full lattice of source placements (value-level)', 'relative priority inside one +-prefixed DELTA_FEATURES value (undocumented)']
    # ---------- LOOKUP
    gov = [p for p in F.fn_bodies if p.endswith('GetOptionValue::get_option_value')]
    gpv = [p for p in F.fn_bodies if p.endswith('GetOptionValue::get_provenanced_value_for_feature')]
    if not gov or not gpv:
        res.anchor_missing('GetOptionValue::{get_option_value, get_provenanced_value_for_feature}')
        return res
    n = ok = 0
    for p, later_pred, what in (
            (gov[0], lambda r, c: r.endswith('::split_whitespace') or r.endswith('get_provenanced_value_for_feature'), 'feature loop'),
            (gpv[0], lambda r, c: r.endswith('HashMap::<K, V, S>::get') or (r.endswith('::get') and 'HashMap' in callee_full(c)), 'builtin feature table lookup')):
        S = F.cfg(p)
        gets = _bb_of_calls(F, p, lambda r, c: r.endswith('GitConfig::get'))
        later = _bb_of_calls(F, p, later_pred)
        n += 1
        good = bool(gets) and bool(later)
        if not gets:
            res.violate('LOOKUP', 'fn=%s;no-gitconfig-get' % p, 'the lookup no longer consults the git config section first', where=F.bodies[p]['mir']['span']['at'])
        for (gb, gc) in gets:
            for (lb, lc) in later:
                if gb in reach(S, S.get(lb, [])):
                    good = False
                    res.violate('LOOKUP', 'fn=%s;order' % p, 'the git-config section lookup can happen after the %s: a lower-priority source can win' % what, where=F.span_of_call(gc))
            # Some edge returns without reaching `later`
            tgt = gc['target']
            sw = None
            b = tgt
            for _ in range(4):
                if b is None:
                    break
                if F.blocks(p)[b]['t'][0] == 'switch':
                    sw = b
                    break
                ss = S.get(b, [])
                b = ss[0] if len(ss) == 1 else None
            if sw is not None:
                t = F.blocks(p)[sw]['t']
                some_t = [bb for v, bb in t[2] if v == 1]
                some_t = some_t[0] if some_t else t[3]
                r = reach(S, some_t)
                if any(lb in r for lb, _ in later):
                    good = False
                    res.violate('LOOKUP', 'fn=%s;fallthrough' % p, 'a value found in the git-config section does not end the search: the %s can override it' % what, where=F.span_of_call(gc))
        if good:
            ok += 1
    # reverse iteration
    n += 1
    # the consumer of the feature-name iterator (a `for` loop's next(), or an adapter chain ending in find_map / find / try_fold / ...)
    CONSUME = ('::next', '::find_map', '::find', '::try_fold', '::fold', '::for_each', '::any', '::all', '::position', '::filter_map', '::map', '::collect', '::last', '::nth')

    def self_ty(c):
        full = callee_full(c)
        return full.split(' as ')[0] if full.startswith('<') else full
    # ... wherever in the function or in the closures it hands to combinators the iteration happens
    scope_fns = [gov[0]] + sorted(q for q in F.fn_bodies if q.startswith(gov[0] + '::{closure'))
    all_calls = [(i, c) for q in scope_fns for i, c in F.calls(q)]
    revs = [(i, c) for i, c in all_calls if callee_of(c).endswith(CONSUME) and 'Rev<' in self_ty(c) and 'SplitWhitespace' in self_ty(c)]
    fwd = [(i, c) for i, c in all_calls if callee_of(c).endswith(CONSUME) and 'SplitWhitespace' in self_ty(c) and 'Rev<' not in self_ty(c)]
    if revs and not fwd:
        ok += 1
    else:
        res.violate('LOOKUP', 'fn=%s;direction' % gov[0], 'enabled features are not searched from last-listed to first-listed (loop is not over Rev<SplitWhitespace>)',
                    where=F.bodies[gov[0]]['mir']['span']['at'])
    res.rule('C13.LOOKUP', n, 3, 'lookup-order obligations (main section first, features reversed, custom section before builtin)', discharged=ok)

    # ---------- CLI-WINS
    uso = [p for p in F.fn_bodies if p.endswith('::user_supplied_option')]
    setters = [p for p in F.fn_bodies if any(callee_of(c) in uso for _, c in F.calls(p)) and any(
        'cli::Opt' in F.bodies[p]['mir']['locals'][i] for i in range(1, F.bodies[p]['mir']['arg_count'] + 1))]
    nw = okw = 0
    n_uso = 0
    exc_used = set()
    for p in setters:
        guards = {}
        for i, c in F.calls(p):
            if callee_of(c) in uso:
                n_uso += 1
                names = Ru.str_lits(F, p, c['args'][0])
                if names:
                    guards.setdefault(names[0], []).append((i, c))
        def guarded_for(fld, bb):
            for (gb, gc) in guards.get(fld, []):
                # the switch on the call result
                tgt = gc['target']
                t = F.blocks(p)[tgt]['t'] if tgt is not None else None
                # follow to the switch (possibly through a Not)
                hops = 0
                while t is not None and t[0] != 'switch' and hops < 3:
                    ss = F.cfg(p).get(tgt, [])
                    tgt = ss[0] if len(ss) == 1 else None
                    t = F.blocks(p)[tgt]['t'] if tgt is not None else None
                    hops += 1
                if t is None or t[0] != 'switch':
                    continue
                neg = Ru.negations(F, p, t[1]) % 2 == 1
                tt, ft = Ru.bool_edges(t[2], t[3])
                not_supplied = tt if neg else ft
                if Ru.edge_dominates(F, p, tgt, not_supplied, bb):
                    return True
            return False

        def excepted(fld, bb):
            return fld in EXCEPTIONS and (not EXCEPTIONS[fld].startswith('forced') or Ru.guarded_by(
                F, p, bb, lambda roots: any(r[0] == 'param' and r[2] and r[2][-1] == 'color_only' for r in roots)))
        for (bb, chain, kind, payload) in Ru.field_writes(F, p, OPT, None):
            if kind.startswith('mutcall'):
                continue
            flds = [f for a, f in chain if a == OPT]
            if not flds:
                continue
            fld = flds[0]
            nw += 1
            if guarded_for(fld, bb):
                okw += 1
            elif excepted(fld, bb):
                okw += 1
                exc_used.add(fld)
            else:
                res.violate('CLI-WINS', 'fn=%s;field=%s' % (p, fld),
                            'opt.%s is overwritten from git config / features without checking that it was not given on the command line' % fld,
                            where=F.bodies[p]['mir']['span']['at'])
        # a mutable borrow of an option field is a write in waiting (`for s in [&mut opt.a, &mut opt.b] { *s = .. }`, opt.a.push_str(..)):
        # it needs the same guard - or `opt.<field>.is_none()`, which no command-line value satisfies
        for bi, blk in enumerate(F.blocks(p)):
            if blk['cleanup']:
                continue
            for st in blk['s']:
                if not (st[0] == 'assign' and st[2][0] == 'ref' and st[2][1] != 'shared'):
                    continue
                fl = [pr[3] for pr in st[2][2]['p'] if pr[0] == 'field' and pr[2] == OPT]
                if not fl:
                    continue
                fld = fl[0]
                nw += 1

                def none_of_same(rs, fld=fld):
                    return any(r[0] == 'call' and r[1].endswith('::is_none') and
                               any(x[0] == 'param' and fld in x[2] for a in r[4]['args'][:1] for x in F.trace(p, a)) for r in rs)
                if guarded_for(fld, bi) or Ru.guarded_by(F, p, bi, none_of_same):
                    okw += 1
                elif excepted(fld, bi):
                    okw += 1
                    exc_used.add(fld)
                else:
                    res.violate('CLI-WINS', 'fn=%s;field=%s;borrow' % (p, fld),
                                'opt.%s is borrowed mutably (to be rewritten) without a dominating check that it was not given on the command line' % fld,
                                where=F.bodies[p]['mir']['span']['at'])
    res.rule('C13.CLI-WINS', nw, 60, 'writes to cli::Opt fields in %s; each guarded by !user_supplied_option(<same field>) (%d guard calls) or in the exception table %s' % (
        [s.split('::')[-1] for s in setters], n_uso, sorted(exc_used)), discharged=okw)

    # ---------- PHASES
    gf = [p for p in F.fn_bodies if p.endswith('::gather_features')]
    if not gf:
        res.anchor_missing('gather_features')
    else:
        p = gf[0]
        S = F.cfg(p)
        C = _bb_of_calls(F, p, lambda r, c: r.endswith('GitConfig::get') and 'delta.features' in Ru.str_lits(F, p, c['args'][1]) if len(c['args']) > 1 else False)
        D = _bb_of_calls(F, p, lambda r, c: r.endswith('gather_builtin_features_from_flags_in_gitconfig'))
        # command-line feature flags: the builtin gatherer called with a feature name that is a literal, directly or through a
        # constant table iterated in place (not a name read from the git config)
        def _flag_name(c):
            fn = c.get('_fn', p)
            if Ru.str_lits(F, fn, c['args'][0]):
                return True
            roots = F.trace_env(fn, c['args'][0], deep=True)
            if fn != p and any(r[0] == 'param' and r[1] >= 2 for r in roots):
                # the closure's own argument: an element of what the closure is applied to (a table iterated with for_each, ...)
                roots = roots + F.closure_payload_roots(fn)
            from_config = any(r[0] == 'call' and ('GitConfig' in r[1] or r[1].endswith('::split_whitespace')) for r in roots)
            return not from_config and any(r[0] in ('agg', 'const') for r in roots)
        B = _bb_of_calls(F, p, lambda r, c: r.endswith('gather_builtin_features_recursively') and _flag_name(c))
        after_c = set()
        for (cb, _) in C:
            after_c |= reach(S, S.get(cb, []))
        A = [(i, c) for i, c in F.calls(p) if (callee_of(c).endswith('::gather_features_recursively') or callee_of(c).endswith('::push_front')) and i not in after_c]
        Cg = [(i, c) for i, c in F.calls(p) if callee_of(c).endswith('::gather_features_recursively') and i in after_c]
        phases = [('named features', A), ('command-line feature flags', B), ('gitconfig features', C + Cg), ('gitconfig feature flags', D)]
        np_ = okp = 0
        for i in range(len(phases)):
            for j in range(i + 1, len(phases)):
                np_ += 1
                bad = False
                for (lb, lc) in phases[j][1]:
                    r = reach(S, S.get(lb, []))
                    if any(eb in r for eb, _ in phases[i][1]):
                        bad = True
                if bad or not phases[i][1] or not phases[j][1]:
                    res.violate('PHASES', 'fn=%s;%d<%d' % (p, i, j), 'feature sources are not gathered in the documented priority order: "%s" can be gathered after "%s"' % (phases[i][0], phases[j][0]),
                                where=F.bodies[p]['mir']['span']['at'])
                else:
                    okp += 1
        res.rule('C13.PHASES', np_, 6, 'ordered pairs of the four feature sources in gather_features (sizes %s)' % [len(x[1]) for x in phases], discharged=okp)

    # ---------- WALK: the custom section of every feature handed to the recursive gatherer is always walked ("features enabled by
    # features"): on every path through it, the lookup of delta.<feature>.features and the scan of the section's feature flags run
    gfr = [q for q in F.fn_bodies if q.endswith('::gather_features_recursively')]
    nwk = okwk = 0
    if not gfr:
        res.anchor_missing('gather_features_recursively')
    for q in gfr:
        lookups = set()
        for i, c in F.calls(q):
            if callee_of(c).endswith('GitConfig::get') and len(c['args']) > 1:
                lits = Ru.str_lits(F, q, c['args'][1])
                snip = ' '.join(str((c.get(k) or {}).get('snippet', '')) for k in ('span', 'tspan'))
                if any('features' in l for l in lits) or '.features' in snip or any(r[0] == 'call' and 'format' in r[1] for r in F.trace(q, c['args'][1], deep=True)):
                    lookups.add(i)
        flags = {i for i, c in F.calls(q) if callee_of(c).endswith('gather_builtin_features_from_flags_in_gitconfig')}
        for name, via in (('the delta.<feature>.features lookup', lookups), ('the scan of the section\'s feature flags', flags)):
            nwk += 1
            if via and not Ru.must_pass(F, q, 0, via):
                okwk += 1
            else:
                res.violate('WALK', 'fn=%s;%s' % (q, 'lookup' if via is lookups else 'flags'), 'some path through the recursive feature gatherer skips %s: a feature that is already in the list '
                            '(e.g. pulled in as a built-in by another feature or a flag) never has its own gitconfig section walked, and the features it enables are dropped' % name,
                            where=F.bodies[q]['mir']['span']['at'])
    res.rule('C13.WALK', nwk, 2, 'recursive feature gatherer: sub-feature lookup and flag scan on every path', discharged=okwk)
    # ---------- NO-GITCONFIG
    gcg = [p for p in F.fn_bodies if p.endswith('GitConfigGet>::git_config_get') or p.endswith('::git_config_get')]
    ng = okg = 0
    callers = Ru.call_sites(F, lambda r, c: r.endswith('::git_config_get'))
    for (p, i, c) in callers:
        ng += 1
        if not p.endswith('GitConfig::get') and p not in gcg and p.rsplit('::{closure', 1)[0] not in gcg:
            res.violate('NO-GITCONFIG', 'fn=%s;raw-accessor' % p, 'a typed git-config accessor is called outside GitConfig::get: --no-gitconfig is bypassed', where=F.span_of_call(c))
            continue
        if p in gcg or p.rsplit('::{closure', 1)[0] in gcg:
            okg += 1      # one typed accessor delegating to another: reachable only through GitConfig::get as well
            continue
        g = Ru.guarded_by(F, p, i, lambda roots: any(r[0] == 'param' and r[2] and r[2][-1] == 'enabled' for r in roots))
        if g:
            okg += 1
        else:
            res.violate('NO-GITCONFIG', 'fn=%s;unguarded' % p, 'GitConfig::get consults the configuration without checking `enabled`', where=F.span_of_call(c))
    so = [p for p in F.fn_bodies if p.endswith('::set_options') and F.bodies[p]['mir']['arg_count'] == 4]
    for p in so:
        ws = [w for w in Ru.field_writes(F, p, 'git_config::GitConfig', 'enabled')]
        ng += 1
        good = False
        for (bb, chain, kind, payload) in ws:
            g = Ru.guarded_by(F, p, bb, lambda roots: any(r[0] == 'param' and r[2] and r[2][-1] == 'no_gitconfig' for r in roots))
            if g:
                # no lookup before it
                reaches_get = F.reverse_reaching({q for q in F.fn_bodies if q.endswith('GitConfig::get')})
                S = F.cfg(p)
                early = [i for i, c in F.calls(p) if callee_of(c) in reaches_get and bb in reach(S, S.get(i, []))]
                if not early:
                    good = True
                else:
                    res.violate('NO-GITCONFIG', 'fn=%s;late-disable' % p, 'git config is consulted before --no-gitconfig disables it', where=F.bodies[p]['mir']['span']['at'])
        if good:
            okg += 1
        else:
            res.violate('NO-GITCONFIG', 'fn=%s;no-disable' % p, 'set_options does not disable the git config under --no-gitconfig', where=F.bodies[p]['mir']['span']['at'])
    # env overrides before file config in typed accessors
    for p in gcg:
        if p not in F.fn_bodies:
            continue
        def reads_env(fn, depth=0):
            """fn (or a local method it calls) reads the parsed GIT_CONFIG_PARAMETERS table"""
            if fn not in F.fn_bodies or depth > 2:
                return False
            for _, c_ in F.calls(fn):
                if any(r[0] == 'param' and 'config_from_env_var' in r[2] for a in c_['args'][:1] for r in F.trace(fn, a)):
                    return True
                q_ = callee_of(c_) if callee_of(c_) in F.fn_bodies else (c_.get('resolved') or '')
                if q_ and q_ != fn and 'git_config' in q_ and reads_env(q_, depth + 1):
                    return True
            return False

        def reads_file(c_, fn):
            return any(r[0] == 'param' and r[2] and r[2][-1] == 'config' for a in c_['args'][:1] for r in F.trace(fn, a))
        envs = [i for i, c in F.calls(p) if any(r[0] == 'param' and 'config_from_env_var' in r[2] for a in c['args'][:1] for r in F.trace(p, a))
                or reads_env(callee_of(c) if callee_of(c) in F.fn_bodies else (c.get('resolved') or ''))]
        files = [i for i, c in F.calls(p) if reads_file(c, p)]
        # file reads inside closures handed to a combinator (`.or_else(|| git_config.config.get_string(key).ok())`) count at the combinator
        for i, c in F.calls(p):
            for a in c['args']:
                for r in F.trace(p, a):
                    if r[0] == 'agg' and r[1][0] == 'closure' and r[1][1] in F.fn_bodies:
                        if any(any(rr[0] == 'param' and rr[2] and rr[2][-1] == 'config' for a2 in c2['args'][:1] for rr in F.trace(r[1][1], a2, deep=True)) or
                               any(rr[0] == 'param' and rr[2] and 'config' == rr[2][-1] for a2 in c2['args'][:1] for rr in F.trace(r[1][1], a2))
                               for _, c2 in F.calls(r[1][1])):
                            files.append(i)
        if not files:
            continue
        ng += 1
        dom = F.dominators(p)
        if envs and all(any(e in dom[f] for e in envs) for f in files):
            okg += 1
        else:
            res.violate('NO-GITCONFIG', 'fn=%s;env-override' % p, 'the file configuration is read without first consulting GIT_CONFIG_PARAMETERS overrides', where=F.bodies[p]['mir']['span']['at'])
    res.rule('C13.GITCONFIG', ng, 4, 'accessor call sites guarded by `enabled`, the --no-gitconfig switch, env-override-before-file in %d typed accessors' % len(gcg), discharged=okg)

    # ---------- DETERMINISM (E4 restricted to option processing)
    roots = [p for p in F.fn_bodies if p.endswith('::from_args_and_git_config') or p.endswith('::set_options')]
    sites = e4.analyse(F, roots or None)
    bad = 0
    for s in sites:
        if s['verdict'] != 'insensitive':
            bad += 1
            res.violate('E4', 'fn=%s;iter=%s;verdict=%s' % (s['fn'], s['callee'].split('::')[-1], s['verdict']),
                        'option processing iterates %s in hash order into an order-sensitive consumer: %s' % (s['recv'], s['why']), where=s['where'])
    res.rule('C13.E4', len(sites), 0, 'hash iterations reachable from option processing, classified by consumer', discharged=len(sites) - bad,
             samples=['%s: %s' % (s['fn'].split('::')[-1], s['verdict']) for s in sites])
    res.distinct.update(r['rule'] for r in res.rules)
    return res
