"""C12 — style strings mean what git's colour language says they mean (structural part)."""
import re
from .. import rules as Ru
from .. import e4
from ..facts import callee_of, callee_full, reach

EXPLANATION = (
    "Table-agreement rules on MIR. WORDS: the word->attribute table is extracted from the style parser (each `word == \"lit\"` comparison and "
    "the fields/flags set on its true edge) and the attribute->word table from Display for Style; every attribute the parser can set must be "
    "tested by the printer and printed with a word the parser maps back to the same attribute (round trip via --show-config). SLOTS: writes to "
    ".foreground happen only on the !seen_foreground edge and mark it seen; writes to .background only on the seen_foreground && !seen_background "
    "edge and mark it seen; a third colour reaches fatal. COLOURS: for n in 0..7 the number->variant table (to_ansi_color), the variant->name "
    "table (color_to_string) and the name->number map (ANSI_16_COLORS) agree. KEYS: in From<Opt> for Config every Style field read from "
    "styles[\"k\"] has k == kebab(field); in the style builders every (\"k\", style_from_str(&opt.f, ..)) pair has k == kebab(f) (explicit alias "
    "table). Determinism of printed colour names: E4 on the printer.")

ATTR_FIELDS = {'is_blink', 'is_bold', 'is_dimmed', 'is_hidden', 'is_italic', 'is_reverse', 'is_strikethrough', 'is_underline'}
FLAGS = {'is_omitted', 'is_raw', 'is_syntax_highlighted'}
KEY_ALIASES = {
    # Config field -> styles key, where they deliberately differ: reason
}
BUILDER_ALIASES = {
    # styles key -> opt field it is deliberately derived from (read in parse_styles.rs: the classic grep header reuses the hunk-header
    # style, and both grep header file styles come from the single --grep-header-file-style option)
    'classic-grep-header-style': 'hunk_header_style',
    'classic-grep-header-file-style': 'grep_header_file_style',
    'ripgrep-header-file-style': 'grep_header_file_style',
    'ripgrep-header-style': 'grep_header_decoration_style',
}


def _eq_lits(F, p, c):
    lits = []
    for a in c['args'][:2]:
        lits += [v[1] for v in F.operand_literals(p, a) if v[0] == 'str']
    return lits


def parser_table(F, p):
    blocks = F.blocks(p)
    S = F.cfg(p)
    names = {n[1]['l']: n[0] for n in F.bodies[p]['mir']['names'] if not n[1]['p']}
    eqs = {}
    for i, c in F.calls(p):
        r = callee_of(c)
        if r.endswith('::eq') and 'PartialEq' in r:
            l = _eq_lits(F, p, c)
            if l:
                eqs[i] = (c, l)
    stop = set(eqs) | {i for i, c in F.calls(p) if callee_of(c).endswith('Iterator>::next')}
    table = {}
    for i, (c, lits) in eqs.items():
        tgt = c['target']
        t = blocks[tgt]['t']
        if t[0] != 'switch':
            continue
        tt, ft = Ru.bool_edges(t[2], t[3])
        region = reach(S, tt, avoid=stop)
        eff = set()
        for b in region:
            for st in blocks[b]['s']:
                if st[0] != 'assign':
                    continue
                rv = st[2]
                is_true = rv[0] == 'use' and 'const' in rv[1] and rv[1]['const']['ty'] == 'bool' and rv[1]['const']['repr'].endswith('true')
                if not is_true:
                    continue
                if st[1]['p']:
                    fl = [pr[3] for pr in st[1]['p'] if pr[0] == 'field']
                    if fl:
                        eff.add(fl[-1])
                else:
                    nm = names.get(st[1]['l'])
                    if nm:
                        eff.add(nm)
        for l in lits:
            table.setdefault(l, set()).update(eff)
    return table


def printer_table(F, p):
    blocks = F.blocks(p)
    S = F.cfg(p)
    sw = Ru.switches(F, p)
    swb = {s[0] for s in sw}
    table = {}
    for (sb, op, arms, other) in sw:
        flds = [r[2][-1] for r in F.trace(p, op) if r[0] == 'param' and r[2]]
        flds = [f for f in flds if f in ATTR_FIELDS | FLAGS]
        if not flds:
            continue
        neg = Ru.negations(F, p, op) % 2 == 1
        tt, ft = Ru.bool_edges(arms, other)
        edge = ft if neg else tt
        # words pushed on the edge until the next field test
        region = reach(S, edge, avoid=swb - {edge})
        # restrict to blocks dominated by the edge
        words = []
        for b in sorted(region):
            if not Ru.edge_dominates(F, p, sb, edge, b) and b != edge:
                continue
            t = blocks[b]['t']
            if t[0] == 'call':
                for a in t[1]['args']:
                    words += [v[1] for v in F.operand_literals(p, a) if v[0] == 'str' and re.match(r'^[a-z-]+$', v[1])]
            # format pieces (write!(f, "raw"))
            if t[0] == 'call' and callee_of(t[1]).endswith('write_fmt') or t[0] == 'call' and 'Arguments' in callee_of(t[1]):
                snip = (t[1].get('span') or {}).get('snippet', '')
                m = re.search(r'"([a-z-]+)"', snip)
                if m:
                    words.append(m.group(1))
        for f in flds:
            table.setdefault(f, []).extend(words)
    # table-driven printers: `(self.<flag>, "<word>")` pairs collected in an array and filtered on the flag
    for blk in blocks:
        if blk['cleanup']:
            continue
        for st in blk['s']:
            if st[0] == 'assign' and st[2][0] == 'agg' and st[2][1][0] == 'tuple' and len(st[2][2]) == 2:
                f_op, w_op = st[2][2]
                flds = [r[2][-1] for r in F.trace(p, f_op) if r[0] == 'param' and r[2] and r[2][-1] in ATTR_FIELDS | FLAGS]
                words = [v[1] for v in F.operand_literals(p, w_op) if v[0] == 'str' and re.match(r'^[a-z-]+$', v[1])]
                if len(flds) == 1 and len(words) == 1:
                    table.setdefault(flds[0], []).append(words[0])
    return table


def run(F, tier, res):
    res.assumptions += ['ansi_term paints exactly the attributes set in ansi_term::Style']
    res.not_decided += ['palette / hex arithmetic, 24-bit -> 256 colour mapping', 'decoration-style attribute words (box, ul, ol) and special hunk-header words']
    parsers = [p for p, b in F.fn_bodies.items() if b['mir']['locals'][0].replace(' ', '') == '(ansi_term::Style,bool,bool,bool)']
    printers = [p for p in F.fn_bodies if p == '<style::Style as std::fmt::Display>::fmt']
    if len(parsers) != 1 or not printers:
        res.anchor_missing('style parser (-> (ansi_term::Style, bool, bool, bool)) / Display for style::Style')
        return res
    P, D = parsers[0], printers[0]
    pt = parser_table(F, P)
    # attribute words may be recognised in local helpers the parser calls with the word (`set_text_attribute(&mut style, word)`)
    word_helpers = []
    for _, c_ in F.calls(P):
        q_ = callee_of(c_) if callee_of(c_) in F.fn_bodies else (c_.get('resolved') or '')
        if q_ in F.fn_bodies and q_ != P and any(str(w_[1][-1][1]).startswith('is_') for w_ in Ru.field_writes(F, q_, None, None) if w_[1]):
            word_helpers.append(q_)
    for q_ in sorted(set(word_helpers)):
        for w_, eff_ in parser_table(F, q_).items():
            pt.setdefault(w_, set()).update(eff_)
    dt = printer_table(F, D)
    field_words = {}
    for w, eff in pt.items():
        for e in eff:
            if e in ATTR_FIELDS | FLAGS:
                field_words.setdefault(e, set()).add(w)
    n = ok = 0
    for f in sorted(field_words):
        n += 1
        printed = dt.get(f)
        if printed is None:
            res.violate('WORDS', 'field=%s;unprinted' % f, 'the style parser sets %s (word %s) but the printed form of a style never mentions it: '
                        'the style shown by --show-config does not reproduce the rendering' % (f, sorted(field_words[f])), where=F.bodies[D]['mir']['span']['at'])
            continue
        if not set(printed) & field_words[f]:
            res.violate('WORDS', 'field=%s;word' % f, 'the printer shows %s as %r, which the parser does not map back to it (parser words: %s)' % (f, printed, sorted(field_words[f])),
                        where=F.bodies[D]['mir']['span']['at'])
            continue
        # the printed word must not ALSO set something else in the parser
        w = [x for x in printed if x in field_words[f]][0]
        extra = (pt.get(w, set()) & (ATTR_FIELDS | FLAGS)) - {f}
        if extra:
            res.violate('WORDS', 'field=%s;ambiguous' % f, 'the word %r printed for %s also sets %s when parsed' % (w, f, sorted(extra)), where=F.bodies[P]['mir']['span']['at'])
            continue
        ok += 1
    # RESERVED: several style options are first passed through the extractor of special decoration attributes, which takes some words
    # out of the style string whatever kind of string it is (box, overline, underline, ...). A word the printer uses for a TEXT
    # attribute must not be one of those: supplied again, it would be consumed as a decoration and the text attribute lost.
    extractors = [q for q, b in F.fn_bodies.items() if 'DecorationAttributes' in b['mir']['locals'][0] and 'String' in b['mir']['locals'][0]
                  and any(b['mir']['locals'][i] == 'bool' for i in range(1, b['mir']['arg_count'] + 1))]
    nrs = okrs = 0
    reserved = {}
    for q in extractors:
        bpar = [i for i in range(1, F.bodies[q]['mir']['arg_count'] + 1) if F.bodies[q]['mir']['locals'][i] == 'bool']
        # the function as it behaves for a non-decoration style string: branches on the flag follow the false arm only
        S0 = F.cfg(q)
        cut = set()
        sw_of_call = {}
        for (sb, op, arms, other) in Ru.switches(F, q):
            rs = F.trace(q, op)
            tt, ft = Ru.bool_edges(arms, other)
            if Ru.negations(F, q, op) % 2 == 1:
                tt, ft = ft, tt
            if any(r[0] == 'param' and r[1] in bpar and not r[2] for r in rs) and not any(r[0] == 'call' for r in rs):
                if tt is not None:
                    cut.add((sb, tt))
            for r in rs:
                if r[0] == 'call' and r[1].endswith(('::eq', '::ne')):
                    sw_of_call.setdefault(r[2], []).append((sb, ft if r[1].endswith('::ne') else tt))
        S1 = {b_: [x for x in ss if (b_, x) not in cut] for b_, ss in S0.items()}
        live = reach(S1, 0) | {0}
        heads = {i for i, c in F.calls(q) if callee_of(c).endswith('::next')}
        keeps = {i for i, c in F.calls(q) if callee_of(c).endswith(('::push', '::push_str', '::extend', '::insert'))}
        for i, c in F.calls(q):
            if not callee_of(c).endswith(('::eq', '::ne')):
                continue
            lits = [v[1] for a in c['args'] for v in F.operand_literals(q, a) if v[0] == 'str']
            if len(lits) != 1 or i not in live:
                continue
            # on the edge where the token equals the literal: is the token still handed on (pushed to the remaining words)?
            for (sb, eq_edge) in sw_of_call.get(i, []):
                if eq_edge is None or sb not in live:
                    continue
                after = reach(S1, [eq_edge], avoid=heads) | {eq_edge}
                if not (after & keeps):
                    reserved[lits[0]] = q
    if extractors:
        for f in sorted(dt):
            if f not in ATTR_FIELDS:
                continue
            nrs += 1
            clash = [w for w in dt[f] if w in reserved]
            if clash:
                res.violate('RESERVED', 'field=%s;word=%s' % (f, clash[0]), 'the printer shows %s as %r, a word that the special-decoration extractor (%s) removes from every style '
                            'string it sees: for commit / file / hunk-header styles the printed style, supplied again, loses the attribute and gains a decoration'
                            % (f, clash[0], reserved[clash[0]].split('::')[-1]), where=F.bodies[D]['mir']['span']['at'])
            else:
                okrs += 1
        res.rule('C12.RESERVED', nrs, 5, 'printed attribute words vs the words %s consumed unconditionally by the special-decoration extractor' % sorted(reserved), discharged=okrs)
    # ORDER: attribute words commute ("in any order"): inside the per-word loop every write to an attribute flag (the bools returned
    # next to the style, and the is_* fields of the ansi_term style) is the constant `true` - set-only, so no word can undo or
    # depend on another one whatever their order
    no_ = oko_ = 0
    blocksP = F.blocks(P)
    mirP = F.bodies[P]['mir']
    ret_flags = set()
    for blk in blocksP:
        for st in blk['s']:
            if st[0] == 'assign' and st[1]['l'] == 0 and not st[1]['p'] and st[2][0] == 'agg' and st[2][1][0] == 'tuple':
                for o in st[2][2]:
                    pl = o.get('move') or o.get('copy')
                    if pl and not pl['p'] and mirP['locals'][pl['l']] == 'bool':
                        ret_flags.add(pl['l'])
                        # follow one copy back (the tuple is built from copies of the flag locals)
                        for (dbb, kind, payload) in F.local_defs(P).get(pl['l'], []):
                            if kind == 'assign' and payload[0] == 'use':
                                q_ = payload[1].get('copy') or payload[1].get('move')
                                if q_ and not q_['p']:
                                    ret_flags.add(q_['l'])
    heads = [i for i, c in F.calls(P) if callee_of(c).endswith('Iterator>::next')]
    S_ = F.cfg(P)
    loop = set()
    for h in heads:
        fwd = reach(S_, S_.get(h, []))
        loop |= {b for b in fwd if h in reach(S_, S_.get(b, []))}
    helper_writes = {}
    for q_ in sorted(set(word_helpers)):
        if not any(callee_of(c_) == q_ or (c_.get('resolved') or '') == q_ for bi_, c_ in F.calls(P) if bi_ in loop):
            continue
        for blk_ in F.blocks(q_):
            if blk_['cleanup']:
                continue
            for st_ in blk_['s']:
                if st_[0] == 'assign' and st_[1]['p'] and st_[1]['p'][-1][0] == 'field' and str(st_[1]['p'][-1][3]).startswith('is_') and 'Style' in str(st_[1]['p'][-1][2]):
                    ct_ = st_[2][0] == 'use' and 'const' in st_[2][1] and st_[2][1]['const'].get('repr') in ('true', 'const true')
                    helper_writes.setdefault(st_[1]['p'][-1][3], []).append(ct_)
    writes = {}      # flag key -> [(bb, is_const_true)]
    bool_writes = {}  # any bool local -> [(bb, is_const_true)] (to recognise the single-shot slot guards `seen_*`)
    for bi in sorted(loop):
        blk = blocksP[bi]
        if blk['cleanup']:
            continue
        for st in blk['s']:
            if st[0] != 'assign':
                continue
            tgt = st[1]
            rv = st[2]
            ct = rv[0] == 'use' and 'const' in rv[1] and rv[1]['const'].get('repr') in ('true', 'const true')
            if not tgt['p'] and mirP['locals'][tgt['l']] == 'bool':
                bool_writes.setdefault(tgt['l'], []).append((bi, ct))
            is_flag = (not tgt['p'] and tgt['l'] in ret_flags) or (tgt['p'] and tgt['p'][-1][0] == 'field' and str(tgt['p'][-1][3]).startswith('is_') and 'Style' in str(tgt['p'][-1][2]))
            if not is_flag:
                continue
            nm = tgt['p'][-1][3] if tgt['p'] else next((n_[0] for n_ in mirP.get('names', []) if n_[1]['l'] == tgt['l'] and not n_[1]['p']), '_%d' % tgt['l'])
            writes.setdefault(nm, []).append((bi, ct))
    # slot guards: switches on a bool local that is not an output flag and is only ever set to true inside the loop (seen_foreground, ...):
    # the false edge is taken at most once per style string
    slot_edges = []
    for (sb, op, arms, other) in Ru.switches(F, P):
        if sb not in loop:
            continue
        pl = op.get('copy') or op.get('move')
        cand = set()
        for r in F.trace(P, op):
            if r[0] == 'local' or r[0] == 'other':
                pass
        # resolve the switched local through one copy
        L = None
        if pl and not pl['p']:
            L = pl['l']
            for (dbb, kind, payload) in F.local_defs(P).get(L, []):
                if kind == 'assign' and payload[0] in ('use', 'unop'):
                    src = payload[1] if payload[0] == 'use' else payload[2]
                    q_ = src.get('copy') or src.get('move') if isinstance(src, dict) else None
                    if q_ and not q_['p'] and q_['l'] in bool_writes:
                        L = q_['l']
        if L is None or L in ret_flags or L not in bool_writes or not all(ct for _, ct in bool_writes[L]):
            continue
        tt, ft = Ru.bool_edges(arms, other)
        if Ru.negations(F, P, op) % 2 == 1:
            tt, ft = ft, tt
        if ft is not None and any(wb in reach(S_, ft) for wb, _ in bool_writes[L]):
            slot_edges.append((sb, ft))
    for nm_, cts_ in sorted(helper_writes.items()):
        for ct_ in cts_:
            no_ += 1
            if ct_:
                oko_ += 1
            else:
                res.violate('ORDER', 'fn=%s;flag=%s;helper' % (P, nm_), 'a helper called for every word of a style string assigns the attribute flag `%s` something other than the constant true: '
                            'the meaning of a style string then depends on the order of its words' % nm_, where=F.bodies[P]['mir']['span']['at'])
    for nm, ws in sorted(writes.items()):
        for (bi, ct) in ws:
            no_ += 1
        if all(ct for _, ct in ws):
            oko_ += len(ws)
            continue
        single_slot = any(all(Ru.edge_dominates(F, P, sb, e, bi) or e == bi for bi, _ in ws) for (sb, e) in slot_edges)
        if single_slot:
            oko_ += len(ws)
        else:
            res.violate('ORDER', 'fn=%s;flag=%s' % (P, nm), 'inside the per-word loop the attribute flag `%s` is assigned something other than the constant true, and not all of its '
                        'writes sit in one positional colour slot: the meaning of a style string then depends on the order of its words' % nm, where=F.bodies[P]['mir']['span']['at'])
    # EMPH: the two emph styles carry is_emph = true whatever way they were specified (literally or by reference to another style):
    # the mark is put on the entries of the RESOLVED style table, on every path from the resolution to the return
    ne_ = oke_ = 0
    ps = [q for q in F.fn_bodies if q.endswith('parse_styles::parse_styles')]
    if not ps:
        res.anchor_missing('parse_styles::parse_styles')
    for q in ps:
        rcalls = [i for i, c in F.calls(q) if callee_of(c).endswith('::resolve_style_references')]
        marks = {}
        for bi, blk in enumerate(F.blocks(q)):
            if blk['cleanup']:
                continue
            for st in blk['s']:
                if st[0] == 'assign' and st[1]['p'] and st[1]['p'][-1][0] == 'field' and st[1]['p'][-1][3] == 'is_emph' \
                        and st[2][0] == 'use' and 'const' in st[2][1] and 'true' in st[2][1]['const'].get('repr', ''):
                    base = {'copy': {'l': st[1]['l'], 'p': []}}
                    for r in F.trace(q, base, deep=True):
                        if r[0] == 'call' and r[1].endswith('::get_mut'):
                            keys = [v[1] for a in r[4]['args'][1:] for v in F.operand_literals(q, a) if v[0] == 'str']
                            from_resolved = any(rr[0] == 'call' and rr[1].endswith('::resolve_style_references') for rr in F.trace(q, r[4]['args'][0], deep=True))
                            for k in keys:
                                marks.setdefault(k, []).append((bi, from_resolved))
        for key in ('minus-emph-style', 'plus-emph-style'):
            ne_ += 1
            ms = [b for b, fr in marks.get(key, []) if fr]
            good = bool(rcalls) and bool(ms)
            if good:
                for rc in rcalls:
                    if Ru.must_pass(F, q, F.cfg(q).get(rc, []), set(ms)):
                        good = False
            if good:
                oke_ += 1
            else:
                res.violate('EMPH', 'fn=%s;key=%s' % (q, key), 'the `%s` entry of the resolved style table is not marked is_emph on every path: an emph style given as a reference to '
                            'another style is painted like the line style (within-line edits lose their emphasis)' % key, where=F.bodies[q]['mir']['span']['at'])
    res.rule('C12.EMPH', ne_, 2, 'is_emph marks on the resolved entries of minus-emph-style / plus-emph-style', discharged=oke_)
    res.rule('C12.ORDER', no_, 8, 'writes to attribute flags inside the style parser\'s word loop: each is `= true`', discharged=oko_)
    res.rule('C12.WORDS', n, 10, 'attributes / flags the parser can set (%s), each printed with a word that parses back to it' % sorted(field_words), discharged=ok,
             samples=['%s <- %s ; printed %s' % (f, sorted(field_words[f]), dt.get(f)) for f in sorted(field_words)])
    # ---------- SLOTS
    names = {n_[0]: n_[1]['l'] for n_ in F.bodies[P]['mir']['names'] if not n_[1]['p']}
    blocks = F.blocks(P)
    S = F.cfg(P)

    def local_switch_edges(localname, value):
        """edges (switch_bb, target) taken when the bool local has `value`"""
        out = []
        l = names.get(localname)
        for (sb, op, arms, other) in Ru.switches(F, P):
            pl = op.get('copy') or op.get('move')
            roots_l = set()
            if pl is not None and not pl['p']:
                # direct or through Not
                cur = pl['l']
                neg = False
                for _ in range(3):
                    if cur == l:
                        break
                    ds = F.local_defs(P).get(cur, [])
                    nxt = None
                    for (dbb, kind, payload) in ds:
                        if kind == 'assign' and payload[0] == 'unop' and payload[1] == 'Not':
                            q = payload[2].get('copy') or payload[2].get('move')
                            if q and not q['p']:
                                nxt = q['l']
                                neg = not neg
                        elif kind == 'assign' and payload[0] == 'use':
                            q = payload[1].get('copy') or payload[1].get('move')
                            if q and not q['p']:
                                nxt = q['l']
                    if nxt is None:
                        break
                    cur = nxt
                if cur == l:
                    tt, ft = Ru.bool_edges(arms, other)
                    want_true = value != neg
                    out.append((sb, tt if want_true else ft))
        return out
    ns = oks = 0
    for fld, seen, prereq in (('foreground', 'seen_foreground', None), ('background', 'seen_background', 'seen_foreground')):
        ws = [w for w in Ru.field_writes(F, P, None, fld) if w[2] == 'assign' and w[1][-1][1] == fld]
        edges = local_switch_edges(seen, False)
        pre_edges = local_switch_edges(prereq, True) if prereq else None
        for (bb, chain, kind, payload) in ws:
            ns += 1
            g1 = any(Ru.edge_dominates(F, P, sb, tgt, bb) for sb, tgt in edges)
            g2 = True if pre_edges is None else any(Ru.edge_dominates(F, P, sb, tgt, bb) for sb, tgt in pre_edges)
            # followed by seen := true before the next word
            l = names.get(seen)
            marks = [i for i, b in enumerate(blocks) if not b['cleanup'] and any(
                st[0] == 'assign' and not st[1]['p'] and st[1]['l'] == l and st[2][0] == 'use' and 'const' in st[2][1] and st[2][1]['const']['repr'].endswith('true') for st in b['s'])]
            heads = [i for i, c in F.calls(P) if callee_of(c).endswith('Iterator>::next')]
            r = reach(S, S.get(bb, []), avoid=set(marks))
            g3 = not any(h in r for h in heads) or bb in marks
            if g1 and g2 and g3:
                oks += 1
            else:
                res.violate('SLOTS', 'field=%s;guard=%s%s%s' % (fld, int(g1), int(g2), int(g3)),
                            'the %s colour slot is not assigned positionally (first colour = foreground, second = background): guard on %s=%s, prerequisite=%s, marks-seen=%s' % (
                                fld, seen, g1, g2, g3), where=F.bodies[P]['mir']['span']['at'])
    # third colour -> fatal
    ns += 1
    e1_ = local_switch_edges('seen_background', True)
    fat = [i for i, c in F.calls(P) if c['target'] is None]
    third_ok = False
    for sb, tgt in e1_:
        if tgt is not None and any(Ru.edge_dominates(F, P, sb, tgt, fb) or fb == tgt for fb in fat):
            # and nothing but fatal on that edge
            if not [x for x in reach(S, tgt) if blocks[x]['t'][0] == 'return']:
                third_ok = True
    if third_ok:
        oks += 1
    else:
        res.violate('SLOTS', 'third-colour', 'a third colour in a style string is not rejected', where=F.bodies[P]['mir']['span']['at'])
    res.rule('C12.SLOTS', ns, 3, 'writes to .foreground/.background in the parser (positional guards) + third-colour rejection', discharged=oks)

    # ---------- COLOURS
    nc = okc = 0
    cts = [p for p in F.fn_bodies if p.endswith('::color_to_string')]
    tac = [p for p in F.fn_bodies if p.endswith('::to_ansi_color')]
    a16 = [p for p in F.fn_bodies if 'ANSI_16_COLORS' in p and '__static_ref_initialize' in p]
    if not (cts and tac and a16):
        res.anchor_missing('color_to_string / to_ansi_color / ANSI_16_COLORS')
    else:
        # variant -> name from color_to_string: switch on discriminant, arm blocks convert a literal
        color_adts = ('ansi_term::Colour', 'ansi_term::Color')

        def arms_of(p, want_lit):
            out = {}
            for (sb, op, arms, other) in Ru.switches(F, p):
                if not any(r[0] == 'discr' for r in F.trace(p, op)) and not arms:
                    continue
                for v, b in arms:
                    # first literal / aggregate in the arm's straight-line region
                    cur = b
                    for _ in range(6):
                        blk = F.blocks(p)[cur]
                        got = None
                        for st in blk['s']:
                            if st[0] == 'assign':
                                rv = st[2]
                                if want_lit == 'agg' and rv[0] == 'agg' and rv[1][0] == 'adt' and rv[1][1] in color_adts:
                                    got = (rv[1][2], rv[1][3])
                        t = blk['t']
                        if want_lit == 'str' and t[0] == 'call':
                            ls = [x[1] for a in t[1]['args'] for x in F.operand_literals(p, a) if x[0] == 'str']
                            if ls:
                                got = ls[0]
                        if got is not None:
                            out.setdefault(v, got)
                            break
                        ss = F.cfg(p).get(cur, [])
                        if len(ss) != 1:
                            break
                        cur = ss[0]
            return out
        num2var = arms_of(tac[0], 'agg')          # number -> variant name
        disc2name = arms_of(cts[0], 'str')       # discriminant -> printed name
        # ansi_term::Color is an external enum: discriminants follow declaration order Black..White = 0..7
        var_order = ['Black', 'Red', 'Green', 'Yellow', 'Blue', 'Purple', 'Cyan', 'White']
        # name -> number map from the lazy static initialiser: tuples (const "name", const n)
        name2num = {}
        for blk in F.blocks(a16[0]):
            for st in blk['s']:
                if st[0] == 'assign' and st[2][0] == 'agg' and st[2][1][0] == 'tuple' and len(st[2][2]) == 2:
                    a, b = st[2][2]
                    la = [v for v in F.operand_literals(a16[0], a) if v[0] == 'str']
                    lb = [v for v in F.operand_literals(a16[0], b) if v[0] == 'int']
                    if la and lb:
                        name2num[la[0][1]] = lb[0][1]
        for nnum in range(8):
            nc += 1
            var = num2var.get(nnum)
            disc = None
            if var is not None:
                disc, var = var
            if var is None:
                res.violate('COLOURS', 'n=%d;novariant' % nnum, 'palette number %d is not mapped to a named ansi_term colour' % nnum, where=F.bodies[tac[0]]['mir']['span']['at'])
                continue
            name = disc2name.get(disc)
            if name is None:
                res.violate('COLOURS', 'n=%d;noname' % nnum, 'colour variant %s has no printed name' % var, where=F.bodies[cts[0]]['mir']['span']['at'])
                continue
            if name2num.get(name) != nnum:
                res.violate('COLOURS', 'n=%d;name=%s' % (nnum, name), 'palette number %d is rendered as %s, printed as %r, which parses to number %r' % (nnum, var, name, name2num.get(name)),
                            where=F.bodies[cts[0]]['mir']['span']['at'])
                continue
            okc += 1
        res.rule('C12.COLOURS', nc, 8, 'palette numbers 0..7: number -> variant -> printed name -> number round trip (%d names in ANSI_16_COLORS)' % len(name2num), discharged=okc,
                 samples=['%d -> %s -> %s' % (i, num2var.get(i), disc2name.get(num2var[i][0]) if num2var.get(i) else None) for i in range(8)])

    # ---------- KEYS
    cf = [p for p in F.fn_bodies if p.startswith('<config::Config as std::convert::From<cli::Opt>>::from') and F.bodies[p]['kind'] == 'AssocFn']
    nk = okk = 0
    if not cf or 'config::Config' not in F.adts:
        res.anchor_missing('From<Opt> for Config')
    else:
        p = cf[0]
        fields = F.adts['config::Config']['variants'][0]['fields']
        for blk in F.blocks(p):
            for st in blk['s']:
                if st[0] == 'assign' and st[2][0] == 'agg' and st[2][1][0] == 'adt' and st[2][1][1] == 'config::Config':
                    for (fname, fty), opnd in zip(fields, st[2][2]):
                        if fty != 'style::Style':
                            continue
                        keys = []
                        for r in F.trace(p, opnd):
                            if r[0] == 'call' and (r[1].endswith('::index') or r[1].endswith('::remove') or r[1].endswith('::get')):
                                for a in r[4]['args'][1:]:
                                    keys += [v[1] for v in F.operand_literals(p, a) if v[0] == 'str']
                        if not keys:
                            continue
                        nk += 1
                        want = KEY_ALIASES.get(fname, fname.replace('_', '-'))
                        if want in keys:
                            okk += 1
                        else:
                            res.violate('KEYS', 'field=%s;key=%s' % (fname, keys[0]), 'Config.%s is read from styles[%r]: the option --%s would style a different element' % (fname, keys[0], keys[0]),
                                        where=F.bodies[p]['mir']['span']['at'])
        # builders
        for bp in sorted(F.fn_bodies):
            if not bp.startswith('parse_styles::'):
                continue
            for blk in F.blocks(bp):
                for st in blk['s']:
                    if st[0] == 'assign' and st[2][0] == 'agg' and st[2][1][0] == 'tuple' and len(st[2][2]) == 2:
                        a, b = st[2][2]
                        ks = [v[1] for v in F.operand_literals(bp, a) if v[0] == 'str' and v[1].endswith('-style')]
                        if not ks:
                            continue
                        flds = set()
                        for r in F.trace(bp, b):
                            if r[0] == 'call':
                                for aa in r[4]['args'][:1]:
                                    for rr in F.trace(bp, aa):
                                        if rr[0] == 'param' and rr[2] and rr[2][-1].endswith('_style'):
                                            flds.add(rr[2][-1])
                        if not flds:
                            continue
                        nk += 1
                        if ks[0].replace('-', '_') in flds or BUILDER_ALIASES.get(ks[0]) in flds:
                            okk += 1
                        else:
                            res.violate('KEYS', 'builder=%s;key=%s' % (bp, ks[0]), 'style key %r is built from opt.%s' % (ks[0], sorted(flds)), where=F.bodies[bp]['mir']['span']['at'])
        res.rule('C12.KEYS', nk, 25, 'Config Style fields read from styles["k"] and builder pairs ("k", style_from_str(&opt.f)) with k == kebab(field)', discharged=okk)
    # ---------- SYNTAX-GATE: `syntax` as a foreground means the text carries the highlighter's colours. Whether the highlighter runs at all for a
    # block of removed / added lines is decided by a gate that looks at the configured styles; it must look at every style that the
    # edit-inference painter can put on such a line (line style, emph style, non-emph style), or a `syntax` foreground in the one it skips is
    # painted with no foreground at all
    gates = [q for q, b in F.fn_bodies.items() if b['mir']['locals'][0] == 'bool' and b['mir']['arg_count'] == 2 and b['mir']['locals'][1].endswith('delta::State')
             and b['mir']['locals'][2].endswith('config::Config')]

    def _cfg_style_reads(q, want_flag):
        out = set()
        for blk in F.blocks(q):
            for st in blk['s']:
                if st[0] != 'assign':
                    continue
                pls = []
                for x in st[2][1:]:
                    if isinstance(x, dict):
                        if 'l' in x:
                            pls.append(x)
                        for k_ in ('copy', 'move'):
                            if k_ in x:
                                pls.append(x[k_])
                for pl in pls:
                    prs = pl.get('p', [])
                    for j_, pr in enumerate(prs):
                        if pr[0] == 'field' and pr[2] == 'config::Config' and pr[3].endswith('style'):
                            flag = any(p2[0] == 'field' and p2[3] == 'is_syntax_highlighted' for p2 in prs[j_ + 1:])
                            if flag or not want_flag:
                                out.add(pr[3])
        return out
    inferers = [q for q in F.fn_bodies if any(callee_of(c).endswith('edits::infer_edits') for _, c in F.calls(q))]
    # ... and the function(s) that take its result and finish the sections (non-emph styles are substituted there)
    inferers += [q for q in F.fn_bodies if any(callee_of(c) in inferers for _, c in F.calls(q)) and q not in inferers]
    nsg = oksg = 0
    if gates and inferers:
        gate_reads = set().union(*[_cfg_style_reads(g_, True) for g_ in gates])
        paint_reads = set().union(*[_cfg_style_reads(q_, False) for q_ in inferers])
        for side in ('minus_', 'plus_'):
            need = {f for f in paint_reads if f.startswith(side) and not f.endswith('empty_line_marker_style')} | {side + 'style'}
            for f in sorted(need):
                nsg += 1
                if f in gate_reads:
                    oksg += 1
                else:
                    res.violate('SYNTAX-GATE', 'field=%s' % f, 'the gate that decides whether the syntax highlighter runs for a block of lines does not look at config.%s, a style the '
                                'edit-inference painter applies to parts of those lines: `syntax` in that style is painted without any foreground colour' % f,
                                where=F.bodies[gates[0]]['mir']['span']['at'])
        res.rule('C12.SYNTAX-GATE', nsg, 2, 'styles applied by the edit-inference painter to removed / added lines, each consulted (is_syntax_highlighted) by the highlighter gate', discharged=oksg)
    # ---------- TRUECOLOR: sibling agreement on the colour-depth argument
    # every function with a parameter named `true_color` is a colour-depth consumer; every call to one must pass a value that
    # derives from the computed true_color option (or the caller's own true_color parameter). Constants are allowed only at the
    # frozen sites below (one reason each).
    TC_CONST_OK = {
        'parse_styles::parse_as_style_or_reference_to_git_config': 'styles referenced from git config are parsed as 24-bit (existing behaviour)',
        'handlers::blame::<impl delta::StateMachine<\'_>>::blame_metadata_style': 'blame palette colours are parsed as 24-bit (existing behaviour)',
        'parse_style::<impl style::Style>::from_git_str': 'styles coming from git\'s own configuration/defaults are parsed as 24-bit (existing behaviour)',
    }
    def _tc_frozen(q, depth=0):
        """the frozen site itself, a closure of it, or a private helper extracted from it (every caller is frozen)"""
        q0 = q.rsplit('::{closure', 1)[0]
        if q in TC_CONST_OK or q0 in TC_CONST_OK:
            return True
        if depth >= 2:
            return False
        callers = {p_ for p_ in F.fn_bodies for _, c_ in F.calls(p_) if callee_of(c_) == q0 or (c_.get('resolved') or '') == q0}
        return bool(callers) and all(_tc_frozen(p_, depth + 1) for p_ in callers)
    consumers = {}
    for q, b in F.fn_bodies.items():
        for nm in b['mir']['names']:
            if nm[0] == 'true_color' and not nm[1]['p'] and 1 <= nm[1]['l'] <= b['mir']['arg_count'] and b['mir']['locals'][nm[1]['l']] == 'bool':
                consumers[q] = nm[1]['l']
    ntc = oktc = 0
    for q in sorted(F.fn_bodies):
        if q.startswith('subcommands::') or '::tests::' in q:
            continue
        for i, c in F.calls(q):
            r = callee_of(c)
            if r not in consumers or consumers[r] - 1 >= len(c['args']):
                continue
            ntc += 1
            a = c['args'][consumers[r] - 1]
            roots = F.trace(q, a)
            derived = any(rr[0] == 'param' and ((rr[2] and rr[2][-1] == 'true_color') or (q in consumers and rr[1] == consumers[q]) or
                                              (F.bodies[q]['kind'] == 'Closure')) for rr in roots) or any(
                rr[0] == 'call' for rr in roots)
            is_const = 'const' in a or any(rr[0] == 'const' for rr in roots) and not derived
            if derived and not is_const:
                oktc += 1
            elif _tc_frozen(q):
                oktc += 1
            else:
                res.violate('TRUECOLOR', 'fn=%s;callee=%s' % (q, r.split('::')[-1]), 'a style/colour parser is called with a constant colour depth instead of the computed true_color setting '
                            '(its sibling call sites pass the setting): in 256-colour mode these styles are emitted as 24-bit colours', where=F.span_of_call(c))
    res.rule('C12.TRUECOLOR', ntc, 25, 'calls to functions with a `true_color` parameter; each passes the computed setting (frozen constant sites: %d)' % len(TC_CONST_OK), discharged=oktc)
    # determinism of printed names
    sites = [s for s in e4.analyse(F, [D])]
    for s in sites:
        if s['verdict'] != 'insensitive':
            res.violate('E4', 'fn=%s;iter=%s;verdict=%s' % (s['fn'], s['callee'].split('::')[-1], s['verdict']), 'the printed form of a style depends on hash iteration order: %s' % s['why'], where=s['where'])
    res.rule('C12.E4', len(sites), 0, 'hash iterations reachable from Display for Style', discharged=sum(1 for s in sites if s['verdict'] == 'insensitive'))
    res.distinct.update(r['rule'] for r in res.rules)
    return res
