"""C16 — grep output keeps every hit's path, line number and code (structural part: writer/reader table agreement)."""
import re
from .. import rules as Ru
from .. import rx, rxsites
from ..facts import callee_of, callee_full, reach

try:
    import re._parser as sre_parse
except ImportError:
    import sre_parse

EXPLANATION = (
    "Table agreement between the grep-line regex (writer of capture groups) and its reader. The five regex variants are assembled from the "
    "literal pieces selected per GrepLineRegex variant in make_grep_line_regex and the format template; Python's regex parser gives their "
    "group trees. GROUPS: each variant has 8 groups; 1 (path) and 8 (code) participate in every match (they are read with unwrap()); 2/4/6 are "
    "the three mutually exclusive separator alternatives and 3/5/7 are nested in them (the reader's `i + 1`). TABLE: the reader's "
    "(index, LineType) table maps the group whose leading literal is ':' to Match, '-' to Context, '=' to ContextHeader, and "
    "LineType::file_path_separator prints the same character for each. ORDER: the plain-text regexes are tried most specific first "
    "(extension+line number, extension without spaces, extension, no separator characters).")

VARIANT_ORDER = ['WithFileExtensionAndLineNumber', 'WithFileExtensionNoSpaces', 'WithFileExtension', 'WithoutSeparatorCharacters']


def assemble(F, mk):
    blocks = F.blocks(mk)
    # two switches on the variant discriminant; each arm assigns a str literal
    maps = []
    for (sb, op, arms, other) in Ru.switches(F, mk):
        pl = op.get('copy') or op.get('move')
        names = None
        for (dbb, kind, payload) in (F.local_defs(mk).get(pl['l'], []) if pl and not pl['p'] else []):
            if kind == 'assign' and payload[0] == 'discr' and len(payload) >= 4 and payload[2].endswith('GrepLineRegex'):
                names = {int(v): n for v, n in payload[3]}
        if not names:
            continue
        m = {}

        def lit_of(bb):
            cur = bb
            for _ in range(4):
                for st in blocks[cur]['s']:
                    if st[0] == 'assign' and st[2][0] == 'use' and 'const' in st[2][1]:
                        v = F.const_value(st[2][1]['const'], mk)
                        if v and v[0] == 'str':
                            return v[1]
                ss = F.cfg(mk).get(cur, [])
                if len(ss) != 1:
                    return None
                cur = ss[0]
            return None
        for v, b in arms:
            m[names[v]] = lit_of(b)
        ol = lit_of(other)
        for nm in names.values():
            if nm not in m:
                m[nm] = ol
        maps.append(m)
    # template from the format! call-site snippet
    tmpl = None
    for i, c in F.calls(mk):
        sp = c.get('span') or {}
        if sp.get('macro', '').startswith('format') and 'snippet' in sp:
            mm = re.search(r'"((?:[^"\\]|\\.)*)"', sp['snippet'], re.S)
            if mm and '{' in mm.group(1):
                tmpl = mm.group(1)
    if tmpl is None:
        for b in blocks:
            t = b['t']
            if t[0] == 'call':
                for key in ('span', 'tspan'):
                    sp = t[1].get(key) or {}
                    if 'format' in sp.get('macro', '') and 'snippet' in sp:
                        mm = re.search(r'"((?:[^"\\]|\\.)*)"', sp['snippet'], re.S)
                        if mm and '{' in mm.group(1):
                            tmpl = mm.group(1)
    return maps, tmpl


def first_literal(pat, gid):
    import warnings
    with warnings.catch_warnings():
        warnings.simplefilter('ignore')
        tree = sre_parse.parse(rx._prep(pat))

    def find(seq):
        for op, av in seq:
            opn = str(op)
            if opn == 'SUBPATTERN':
                g, a, d, sub = av
                if g == gid:
                    for op2, av2 in sub:
                        if str(op2) == 'LITERAL':
                            return chr(av2)
                        if str(op2) == 'SUBPATTERN':
                            continue
                        break
                    return None
                r = find(sub)
                if r is not None:
                    return r
            elif opn in ('MAX_REPEAT', 'MIN_REPEAT'):
                r = find(av[2])
                if r is not None:
                    return r
            elif opn == 'BRANCH':
                for alt in av[1]:
                    r = find(alt)
                    if r is not None:
                        return r
        return None
    return find(tree)


def run(F, tier, res):
    res.assumptions += ['Rust `regex` and Python `re` agree on the group structure of these patterns (verbose mode, classes, alternation)',
                        'serde/JSON decoding of `rg --json` is correct (not analysed)']
    res.not_decided += ['the parse of inherently ambiguous plain-text grep lines', 'rg --json schema and submatch offsets after tab expansion', 'grouping under file headers']
    mks = [p for p in F.fn_bodies if p.endswith('::make_grep_line_regex')]
    rds = [p for p in F.fn_bodies if p.endswith('::_parse_grep_line')]
    if not mks or not rds:
        res.anchor_missing('grep::{make_grep_line_regex, _parse_grep_line}')
        return res
    mk, rd = mks[0], rds[0]
    maps, tmpl = assemble(F, mk)
    if len(maps) != 2 or not tmpl:
        res.violate('ASSEMBLE', 'shape', 'cannot assemble the grep regex variants from make_grep_line_regex (pieces: %d, template: %s)' % (len(maps), bool(tmpl)))
        return res
    # which map is file_path / separator: by the placeholder order in the template and the order of the switches
    fp_map, sep_map = maps[0], maps[1]
    if any(v and '(?:' in v and '|' in v for v in fp_map.values()):
        fp_map, sep_map = sep_map, fp_map
    variants = sorted(fp_map)
    # reader table
    table = {}
    for pm in F.bodies[rd].get('promoted', []):
        for blk in pm['blocks']:
            for st in blk['s']:
                if st[0] == 'assign' and st[2][0] == 'agg' and st[2][1][0] == 'tuple' and len(st[2][2]) == 2:
                    a, b = st[2][2]
                    if 'const' in a:
                        iv = F.const_value(a['const'], rd)
                        pl = b.get('move') or b.get('copy')
                        for st2 in blk['s']:
                            if st2[0] == 'assign' and pl and st2[1]['l'] == pl['l'] and st2[2][0] == 'agg' and st2[2][1][0] == 'adt':
                                if iv and iv[0] == 'int':
                                    table[iv[1]] = st2[2][1][3]
    acc, statics = rxsites.capture_accesses(F)
    unwrapped = sorted({a['index'] for a in acc if a['fn'] == rd and a['unwrapped'] and a['index'] is not None})
    # separator printer
    fps = [p for p in F.fn_bodies if p.endswith('LineType::file_path_separator')]
    printer = {}
    if fps:
        p = fps[0]
        for (sb, op, arms, other) in Ru.switches(F, p):
            pl = op.get('copy') or op.get('move')
            for (dbb, kind, payload) in (F.local_defs(p).get(pl['l'], []) if pl and not pl['p'] else []):
                if kind == 'assign' and payload[0] == 'discr' and len(payload) >= 4:
                    names = {int(v): n for v, n in payload[3]}
                    for v, b in arms:
                        for st in F.blocks(p)[b]['s']:
                            if st[0] == 'assign' and st[2][0] == 'use' and 'const' in st[2][1]:
                                cv = F.const_value(st[2][1]['const'], p)
                                if cv and cv[0] == 'str':
                                    printer[names[v]] = cv[1]
    WANT = {':': 'Match', '-': 'Context', '=': 'ContextHeader'}
    n = ok = 0
    samples = []
    for var in variants:
        pat = tmpl.replace('{file_path}', fp_map[var] or '').replace('{separator}', sep_map[var] or '')
        pat = pat.replace('\\n', '\n')
        n += 1
        try:
            g, ng = rx.groups(pat)
            excl = rx.alternation_siblings(pat)
        except rx.RxError as e:
            res.violate('GROUPS', 'variant=%s;unparsable' % var, str(e))
            continue
        good = True
        if ng != 8:
            good = False
            res.violate('GROUPS', 'variant=%s;count=%d' % (var, ng), 'the %s grep regex has %d capture groups; the reader reads group 8 as the code' % (var, ng), where=F.bodies[mk]['mir']['span']['at'])
        for u in unwrapped:
            if u not in g or not g[u]['mandatory']:
                good = False
                res.violate('GROUPS', 'variant=%s;group=%s' % (var, u), 'group %s is read with unwrap() but does not participate in every match of the %s regex' % (u, var), where=F.bodies[rd]['mir']['span']['at'])
        for i, lt in sorted(table.items()):
            if i not in g:
                good = False
                continue
            ch = first_literal(pat, i)
            if WANT.get(ch) != lt:
                good = False
                res.violate('TABLE', 'variant=%s;group=%d' % (var, i), 'group %d of the %s regex matches the separator %r but the reader classifies it as %s' % (i, var, ch, lt), where=F.bodies[rd]['mir']['span']['at'])
            if printer and printer.get(lt) != ch:
                good = False
                res.violate('TABLE', 'variant=%s;sep=%s' % (var, lt), 'a %s line is recognised by %r but printed with separator %r' % (lt, ch, printer.get(lt)), where=F.bodies[fps[0]]['mir']['span']['at'])
            # i+1 nested in i
            if (i + 1) not in g or g[i + 1]['parent'] != i:
                good = False
                res.violate('GROUPS', 'variant=%s;nested=%d' % (var, i + 1), 'the line-number group %d is not nested in separator group %d of the %s regex (the reader reads group i+1)' % (i + 1, i, var), where=F.bodies[rd]['mir']['span']['at'])
            others = set(table) - {i}
            if not others <= excl.get(i, set()):
                good = False
                res.violate('GROUPS', 'variant=%s;exclusive=%d' % (var, i), 'separator groups are not alternatives of one alternation in the %s regex' % var, where=F.bodies[mk]['mir']['span']['at'])
        # the path group is greedy: of several `name.ext<sep>` candidates in a line the LAST one ends the path (a directory such as
        # `zlib-1.2-11-gfe6a/` looks like a hit; the documented guarantee resolves it by taking the longest path)
        try:
            lazy = rx.lazy_repeats_in_group(pat, 1)
        except rx.RxError:
            lazy = 0
        if lazy:
            good = False
            res.violate('GREEDY', 'variant=%s' % var, 'the file-path group of the %s grep regex contains a lazy repetition: the path stops at the first `name.ext` followed by a separator '
                        'instead of the last, so a look-alike inside a directory name splits the path' % var, where=F.bodies[mk]['mir']['span']['at'])
        if good:
            ok += 1
        samples.append('%s: groups=%d mandatory=%s' % (var, ng, sorted(k for k, v in g.items() if v['mandatory'])))
    res.rule('C16.GROUPS+TABLE', n, 5, 'grep regex variants assembled and checked against the reader (unwrapped groups %s, table %s, printer %s)' % (unwrapped, table, printer), discharged=ok, samples=samples)
    if sorted(table) != [2, 4, 6] or set(table.values()) != set(WANT.values()):
        res.violate('TABLE', 'reader-table', 'the reader\'s (index, LineType) table is %s, expected groups 2/4/6 for Match/Context/ContextHeader' % table, where=F.bodies[rd]['mir']['span']['at'])
    # ---------- ORDER
    pgl = [p for p in F.fn_bodies if p.endswith('::parse_grep_line') and not p.endswith('_parse_grep_line')]
    no = oko = 0
    static_variant = {}
    for p in F.fn_bodies:
        if '__static_ref_initialize' in p and any(callee_of(c) == mk for _, c in F.calls(p)):
            for _, c in F.calls(p):
                if callee_of(c) == mk:
                    for v in F.operand_literals(p, c['args'][0]):
                        if v[0] == 'enum':
                            static_variant[p.split(' as std::ops::Deref>')[0].lstrip('<')] = v[2]
                    for r in F.trace(p, c['args'][0]):
                        if r[0] == 'agg' and r[1][0] == 'adt':
                            static_variant[p.split(' as std::ops::Deref>')[0].lstrip('<')] = r[1][3]
    for p in pgl:
        order = []
        for blk in F.blocks(p):
            for st in blk['s']:
                if st[0] == 'assign' and st[2][0] == 'agg' and st[2][1][0] == 'array':
                    for o in st[2][2]:
                        for r in F.trace(p, o):
                            if r[0] == 'call' and r[1].endswith('as std::ops::Deref>::deref'):
                                nm = r[1].split(' as std::ops::Deref>')[0].lstrip('<')
                                if nm in static_variant:
                                    order.append(static_variant[nm])
        if order:
            no += 1
            if order == VARIANT_ORDER:
                oko += 1
            else:
                res.violate('ORDER', 'fn=%s' % p, 'the plain-text grep regexes are tried in the order %s, documented (most specific first): %s' % (order, VARIANT_ORDER), where=F.bodies[p]['mir']['span']['at'])
    res.rule('C16.ORDER', no, 1, 'array of plain-text grep regexes in parse_grep_line (statics -> variants: %s)' % static_variant, discharged=oko)
    # ---------- STATELESS: a grep line is parsed on its own - which regex is tried first must not depend on what earlier lines matched. The
    # reader (and its closures) may not read or write thread-locals, cells or atomics (the calling-process query is the one exception: it is
    # fixed for the whole run, C20)
    nsl = oksl = 0
    for p in pgl:
        fam = [p] + [q for q in F.fn_bodies if q.startswith(p + '::{closure')]
        for q in fam:
            for i, c in F.calls(q):
                r = callee_of(c)
                nsl += 1
                if ('LocalKey' in r or 'cell::Cell' in r or 'cell::RefCell' in r or 'sync::atomic' in r or 'Atomic::<' in r) and 'calling_process' not in r:
                    res.violate('STATELESS', 'fn=%s;callee=%s' % (q, r.split('::')[-1]), 'the grep line reader consults mutable state kept between lines (%s): the regex tried first, and '
                                'with it the way an ambiguous line is split into path / line number / code, depends on the lines before it' % r, where=F.span_of_call(c))
                else:
                    oksl += 1
    res.rule('C16.STATELESS', nsl, 1, 'calls in the plain-text grep line reader and its closures: none touches a thread-local / cell / atomic', discharged=oksl)
    # ---------- XMODE: in a verbose-mode ((?x)) regex whitespace is ignored - also inside a character class in the regex crate's
    # syntax - so a blank that is meant literally must be escaped; an unescaped blank inside [...] silently drops out of the class
    nx = okx = 0

    def unescaped_blank_in_class(pat):
        if '(?x' not in pat and '(?' not in pat:
            return False
        import re as _re
        if not _re.search(r'\(\?[a-wyz]*x', pat):
            return False
        i, depth = 0, 0
        while i < len(pat):
            ch = pat[i]
            if ch == '\\':
                i += 2
                continue
            if ch == '[':
                depth += 1
            elif ch == ']' and depth:
                depth -= 1
            elif ch in ' \t' and depth:
                return True
            elif ch == '#' and not depth:
                # comment to end of line
                j = pat.find('\n', i)
                i = len(pat) if j < 0 else j
            i += 1
        return False
    for var in variants:
        pat = tmpl.replace('{file_path}', fp_map[var] or '').replace('{separator}', sep_map[var] or '').replace('\\n', '\n')
        nx += 1
        if unescaped_blank_in_class(pat):
            res.violate('XMODE', 'variant=%s' % var, 'the %s grep regex is compiled in verbose mode and contains an unescaped blank inside a character class: the blank is ignored, '
                        'so the class no longer excludes (or includes) spaces as written' % var, where=F.bodies[mk]['mir']['span']['at'])
        else:
            okx += 1
    res.rule('C16.XMODE', nx, 5, 'verbose-mode grep regex variants: no unescaped blank inside a character class', discharged=okx)
    # ---------- SHIFT: submatch coordinates are moved by a quantity measured on the expanded text
    ns = oks = 0
    ets = [p for p in F.fn_bodies if 'handlers::grep' in p and any(callee_of(c).endswith('tabs::expand') for _, c in F.calls(p))
           and Ru.field_writes(F, p, None, 'submatches')]
    MEASURE = ('::len', '::width', '::count', '::chars', '::char_indices', '::graphemes', '::find', '::position')
    for p in ets:
        exp_bbs = [i for i, c in F.calls(p) if callee_of(c).endswith('tabs::expand')]
        dom = F.dominators(p)
        for w in Ru.field_writes(F, p, None, 'submatches'):
            if w[2] != 'assign':
                continue
            ns += 1
            roots = []
            for x in w[3][2][1:]:
                if isinstance(x, dict):
                    roots += F.trace(p, x, deep=True)
            post = False
            for r in roots:
                if r[0] == 'call' and r[1].endswith(MEASURE) and any(e in dom.get(r[2], ()) for e in exp_bbs):
                    for a in r[4]['args'][:1]:
                        for rr in F.trace(p, a):
                            if (rr[0] in ('local', 'param') and rr[2] and rr[2][-1] == 'code') or (rr[0] == 'call' and rr[1].endswith('tabs::expand')):
                                post = True
                if r[0] == 'call' and r[1].endswith('tabs::expand'):
                    post = True
            if post:
                oks += 1
            else:
                res.violate('SHIFT', 'fn=%s' % p, 'the offset applied to the rg --json submatch coordinates is not measured on the tab-expanded text (no length / width / position taken from '
                            'the expansion result flows into it): the shift and the expansion can disagree, highlighting the wrong span', where=F.bodies[p]['mir']['span']['at'])
    res.rule('C16.SHIFT', ns, 1, 'writes to GrepLine.submatches next to tab expansion: the offset depends on a measurement of the expanded text', discharged=oks)
    # ---------- TEXT-INTACT: rg --json reports submatch offsets into the line text it sends; before the text becomes GrepLine.code only
    # its line terminator may be removed (one "\n", then one "\r"): anything else (trimming blanks, cutting, replacing) leaves the
    # offsets pointing past the end or at the wrong bytes
    nt = okt = 0
    NL = {('char', '\n'), ('char', '\r'), ('str', '\n'), ('str', '\r'), ('str', '\r\n')}
    for p in sorted(F.fn_bodies):
        if p.startswith('<') or 'ripgrep_json' not in p:
            continue
        blocks = F.blocks(p)
        defs = F.local_defs(p)
        code_ops = []
        for blk in blocks:
            for st in blk['s']:
                if st[0] == 'assign' and st[2][0] == 'agg' and st[2][1][0] == 'adt' and st[2][1][1].endswith('::GrepLine') and 'code' in st[2][1][4]:
                    code_ops.append(st[2][2][st[2][1][4].index('code')])
        if not code_ops:
            continue
        CODE = set()
        work = [(o.get('move') or o.get('copy') or {}).get('l') for o in code_ops]
        while work:
            l = work.pop()
            if l is None or l in CODE:
                continue
            CODE.add(l)
            for (bb, kind, payload) in defs.get(l, []):
                if kind == 'call' and not callee_of(payload).endswith(('from_str', '::ok', '::branch')):
                    # conversions and the text-shortening calls themselves (strip_suffix, trim_end_matches, unwrap_or ...): follow the receiver
                    work += [(a.get('move') or a.get('copy') or {}).get('l') for a in payload['args'][:1]]
                elif kind == 'assign' and payload[0] in ('use', 'cast'):
                    o = payload[1] if payload[0] == 'use' else payload[2]
                    q2 = (o.get('move') or o.get('copy')) if isinstance(o, dict) else None
                    if q2 and not any(pr[0] == 'field' for pr in q2['p']):
                        work.append(q2['l'])

        def on_code(op, depth=0):
            q2 = (op.get('move') or op.get('copy')) if isinstance(op, dict) else None
            if not q2 or depth > 5:
                return False
            if q2['l'] in CODE:
                return True
            for (bb, kind, payload) in defs.get(q2['l'], []):
                if kind == 'assign' and payload[0] in ('ref', 'rawptr'):
                    if payload[2]['l'] in CODE or on_code({'copy': {'l': payload[2]['l'], 'p': []}}, depth + 1):
                        return True
                elif kind == 'assign' and payload[0] in ('use', 'copyderef'):
                    if on_code(payload[1] if payload[0] == 'use' else {'copy': payload[1]}, depth + 1):
                        return True
                elif kind == 'call' and callee_of(payload).endswith(('::deref', '::deref_mut', '::as_str', '::as_mut_str', '::as_ref', '::borrow')):
                    if on_code(payload['args'][0], depth + 1):
                        return True
            return False
        for i, c in F.calls(p):
            r = callee_of(c)
            if not c['args'] or not on_code(c['args'][0]):
                continue
            lits = {v for a in c['args'][1:] for v in F.operand_literals(p, a)}
            verdict = None
            if r.endswith(('::trim', '::trim_end', '::trim_start', '::trim_ascii', '::trim_ascii_end', '::trim_ascii_start', '::replace', '::replacen', '::retain',
                           '::drain', '::replace_range', '::split_off', '::clear', '::remove', '::trim_matches', '::trim_start_matches', '::strip_prefix')):
                verdict = 'removes more than the line terminator (%s)' % r.split('::')[-1]
            elif r.endswith(('::trim_end_matches', '::strip_suffix')):
                verdict = None if (lits and lits <= NL) else 'strips something other than "\\n" / "\\r" (%s)' % r.split('::')[-1]
                nt += 1
            elif r.endswith(('String::truncate', 'String::pop')):
                nt += 1
                g = Ru.guarded_by(F, p, i, lambda rs: any(x[0] == 'call' and x[1].endswith('::ends_with') and
                                                          {v for a in x[4]['args'][1:] for v in F.operand_literals(p, a)} & NL for x in rs))
                if not g:
                    verdict = 'shortens the text without a dominating ends_with("\\n") / ends_with("\\r") test (%s)' % r.split('::')[-1]
                elif r.endswith('truncate'):
                    rs = F.trace(p, c['args'][1])
                    l2 = [v[1] for v in F.operand_literals(p, c['args'][1]) if v[0] == 'int']
                    if not (any(x[0] == 'binop' and x[1].startswith('Sub') for x in rs) and any(x[0] == 'call' and x[1].endswith('::len') for x in rs) and l2 and max(l2) <= 2
                            and not any(x[0] == 'call' and not x[1].endswith('::len') for x in rs)):
                        verdict = 'cuts the text at something other than len() - 1 (truncate)'
            else:
                continue
            if verdict:
                if not r.endswith(('String::truncate', 'String::pop', '::trim_end_matches', '::strip_suffix')):
                    nt += 1
                res.violate('TEXT-INTACT', 'fn=%s;callee=%s' % (p, r.split('::')[-1]), 'the text of an rg --json line is changed before it becomes the line of code: it %s, but the '
                            'submatch offsets that rg reported refer to the text as sent' % verdict, where=F.span_of_call(c))
            else:
                okt += 1
    res.rule('C16.TEXT-INTACT', nt, 0, 'mutations of the rg --json line text before it becomes GrepLine.code: only the line terminator is removed', discharged=okt)
    res.distinct.update(r['rule'] for r in res.rules)
    return res
