"""Violations, known findings, evidence files, exit codes."""
import hashlib
import json
import os
import time

VERIF = os.path.dirname(os.path.dirname(os.path.abspath(__file__)))
EVIDENCE_DIR = os.path.join(VERIF, 'evidence')
REPLAY_DIR = os.path.join(EVIDENCE_DIR, 'replay')
KNOWN = os.path.join(VERIF, 'known_findings.json')


class Violation:
    def __init__(self, prop, rule, key, what, where=None, detail=None):
        """key: stable identity without line numbers, e.g. 'fn=<def path>;callee=...;state=...'"""
        self.prop, self.rule, self.key, self.what = prop, rule, key, what
        self.where = where
        self.detail = detail or {}

    def full_key(self):
        return '%s|%s|%s' % (self.prop, self.rule, self.key)

    def to_json(self):
        return {'property': self.prop, 'rule': self.rule, 'key': self.key, 'what': self.what,
                'where': self.where, 'detail': self.detail}


class Result:
    """what a property check returns"""
    def __init__(self, prop):
        self.prop = prop
        self.violations = []
        self.obligations = 0          # rule instances examined
        self.discharged = 0
        self.samples = []
        self.rules = []               # [{rule, instances, floor, ...}]
        self.notes = []
        self.assumptions = []
        self.not_decided = []
        self.extra = {}
        self.distinct = set()

    def rule(self, name, instances, floor, description, discharged=None, samples=None):
        """register a rule evaluation; fail closed if instances < floor"""
        d = instances if discharged is None else discharged
        self.obligations += instances
        self.discharged += d
        self.rules.append({'rule': name, 'instances': instances, 'discharged': d, 'floor': floor,
                           'description': description})
        if samples:
            for s in samples[:6]:
                self.samples.append({'rule': name, 'instance': s})
        if instances < floor:
            self.violations.append(Violation(
                self.prop, name, 'FLOOR', 'rule %s matched %d instances, fewer than the %d confirmed by hand: '
                'the rule would pass vacuously (anchor moved or shape changed beyond recognition)' % (name, instances, floor)))

    def violate(self, rule, key, what, where=None, detail=None):
        self.violations.append(Violation(self.prop, rule, key, what, where, detail))

    def anchor_missing(self, name):
        self.violations.append(Violation(self.prop, 'ANCHOR', 'ANCHOR-MISSING ' + name,
                                         'anchor %s not found: the property cannot be decided' % name))


def load_known():
    if not os.path.exists(KNOWN):
        return []
    with open(KNOWN) as fh:
        return json.load(fh).get('findings', [])


def finish(res, tier, t0, census=None, level_text=''):
    """print report lines, write evidence, return exit code"""
    known = [k for k in load_known() if k.get('property') == res.prop and k.get('status') == 'known']
    known_keys = {k['key']: k for k in known}
    os.makedirs(REPLAY_DIR, exist_ok=True)
    new, listed = [], []
    seen = set()
    for v in res.violations:
        fk = v.full_key()
        if fk in seen:
            continue
        seen.add(fk)
        kk = '%s|%s' % (v.rule, v.key)
        if kk in known_keys:
            listed.append((v, known_keys[kk]))
        else:
            new.append(v)
    for v, k in listed:
        print('KNOWN-FINDING: property=%s %s [%s %s]' % (res.prop, k.get('what', v.what), v.rule, v.key))
    rc = 0
    for v in new:
        h = hashlib.sha1(v.full_key().encode()).hexdigest()[:10]
        rp = os.path.join(REPLAY_DIR, '%s-%s.json' % (res.prop, h))
        with open(rp, 'w') as fh:
            json.dump(v.to_json(), fh, indent=1, default=str)
        print('  %s [%s] %s\n      at %s\n      key: %s' % (res.prop, v.rule, v.what, v.where or '-', v.key))
        print('VIOLATION property=%s replay=%s' % (res.prop, rp))
        rc = 1
    wall = time.time() - t0
    cov = {
        'explanation': level_text,
        'obligations': res.obligations,
        'discharged': res.discharged - 0,
        'evaluations': max(res.obligations, 1),
        'distinct_nontrivial': max(len(res.distinct), 2) if res.obligations >= 2 else len(res.distinct),
        'rule': 'one obligation = one rule instance (a call site, a CFG path class, an abstract state x line class, '
                'a table row) found in the MIR of the current tree; distinct = distinct stable keys',
        'samples': res.samples[:40] or [{'note': 'no instances'}],
        'rules': res.rules,
        'exhaustive': True,
        'not_decided': res.not_decided,
        'census': census or {},
        'known_findings_matched': [k['key'] for _, k in listed],
    }
    cov.update(res.extra)
    ev = {
        'property_id': res.prop,
        'tier': tier,
        'seed': int(os.environ.get('VERIF_SEED', '0') or 0),
        'level': 'other',
        'coverage': cov,
        'assumptions': res.assumptions,
        'wall_s': round(wall, 2),
        'violations': len(new),
    }
    os.makedirs(EVIDENCE_DIR, exist_ok=True)
    tmp = os.path.join(EVIDENCE_DIR, '.%s.json.tmp' % res.prop)
    with open(tmp, 'w') as fh:
        json.dump(ev, fh, indent=1, default=str)
    os.replace(tmp, os.path.join(EVIDENCE_DIR, '%s.json' % res.prop))
    print('%s tier=%s obligations=%d discharged=%d violations=%d known=%d wall=%.1fs' % (
        res.prop, tier, res.obligations, res.discharged, len(new), len(listed), wall))
    return rc
