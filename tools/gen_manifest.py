#!/usr/bin/env python3
"""Regenerate /verif/MANIFEST.json from the table below (kept valid at all times)."""
import json, os
V = os.path.dirname(os.path.dirname(os.path.abspath(__file__)))

CLAIMED = {
 'C20': dict(
    technique='MIR protocol rules: dominance/post-dominance, guarded-by (edge-sensitive, evaluated over the finite source domain), who-may-construct, guard live-range scan, call-graph reachability',
    text='Eight structural invariants (G1-G8) of the mutex/condvar/atomic protocol are decided on every CFG path of the cfg(not(test)) build; '
         'together they imply that a query never returns Pending or a stale guess, never blocks forever, and a launched command is never overwritten, under every interleaving.',
    note='Trusts std Mutex/Condvar/atomics and rustc MIR construction + callee resolution; OS process-table races and panics inside the determination thread are not decided.',
    design='5/C20'),
}
E1_NOTE = ('Trusts rustc MIR + callee resolution, the fact serialisation and the Python engines. Input-validity assumptions A1-A9 '
           '(printed in the evidence) restrict line classes per abstract state; output writes are assumed to succeed; payloads and string '
           'contents are not tracked, so ordering/exactly-once/flush discipline is decided, not character-level integrity.')
CLAIMED.update({
 'C01': dict(
    technique='abstract interpretation of the line state machine over MIR (finite typestate domain x line classes, disjunctive, fixpoint): ORD-W/ORD-B/ORD-M/ORD-P, DROP, ONCE, EOF, TOTAL rules at events inferred from field provenance',
    text='Decides the structural half of C01 for inputs of any length: no rendered or buffered hunk line is overtaken by a direct write, header or merge-conflict block; a removed line is never buffered behind pending added lines; '
         'no buffer is cleared unpainted; the hunk-line handler consumes each claimed line exactly once; nothing is held back at end of input; a total fall-through handler exists. '
         'Not decided: that the characters of a line survive prefix removal / tab expansion / truncation.',
    note=E1_NOTE, design='4, 5/C01'),
 'C02': dict(
    technique='MIR guarded-by / last-write / must-pass rules on set_options (C02-a) + abstract interpretation pinned to color_only with newline accounting through the decoration sink functions (C02-b)',
    text='Decides that --color-only forces side_by_side=false and the three decoration styles to none on every path of option processing, and that in that mode every handler path that claims an input line '
         'emits exactly one output line (written newlines + deferrals, +1 for a released hunk header) in order. Not decided: that the visible text of each line is unchanged.',
    note=E1_NOTE + ' "none" parses to NoDecoration and the forced options reach Config unchanged (unit tests). blame/grep/show renderings are outside the contract.', design='5/C02'),
 'C04': dict(
    technique='abstract interpretation in pass-through mode (no marker, no recogniser matches) from every reachable line-start state + DECLINE-MUT typestate rule + MIR who-may-write/guarded-by rule on the ingest functions',
    text='Decides that a line without marker is claimed only by the fall-through writer, as exactly one write of raw_line after a flush; that no declining handler has modified line/raw_line; '
         'and that ingestion rewrites raw_line only under the CR / max-line-length guards, the CR rewrite keeping both the part before and after the CR; that every cut at a position derived from max_line_length is dominated by a test that the limit is positive (0 = no truncation) and that the limit recomputed for wrapping never falls below the configured one; and that the pass-through writer never writes while rendered or buffered lines of an earlier construct are pending (ORD-W at that writer). Not decided: the bytes those rewrites compute; hyperlinks added to raw commit lines on a tty.',
    note=E1_NOTE, design='5/C04'),
 'C10': dict(
    technique='abstract interpretation (ordering rules at section-boundary code, EOF) + MIR must-assign rule for per-file fields + hash-iteration-order lint (consumer classification) + who-may-call for entropy sources',
    text='Decides that nothing of the previous section is overtaken by or lost at a section boundary / end of input, that the `diff ` line handler reassigns all eight per-file fields and flushes the previous section before overwriting what the flush reads (RESET-ORDER), '
         'that per-hunk line-number state is overwritten, never accumulated (FRESH-HUNK), and that no iteration over a std hash container reachable from main feeds an order-sensitive consumer (run-to-run determinism). Not decided: the concatenation equation itself.',
    note=E1_NOTE + ' Determinism is relative to the same environment (process table, clock for relative blame timestamps).', design='5/C10'),
 'C11': dict(
    technique='abstract interpretation (STREAM rule: output_buffer empty at every claiming exit of the hunk-line handler) + path-based MIR rule for the line_buffer_size guard + instantiation / who-may-construct checks for reader and sink',
    text='Decides that everything rendered is written before any handler of diff content returns to read the next line (foreign formats and conflict regions excepted by state), that the number of held-back lines is bounded by a line_buffer_size guard measuring the very buffer pushed to, on every path to a push, '
         'that the renderer reads line-wise from stdin/child stdout and that no buffering writer is interposed. Not decided: timing and OS-level buffering.',
    note=E1_NOTE, design='5/C11'),
 'C14': dict(
    technique='abstract interpretation (DROP-HDR typestate for the captured hunk header; ORD-W at header writers) + MIR guarded-by/follows rule for the file-header pairing + must-assign / flush-before-overwrite rules at the section boundary + table rule for the /dev/null file choice + operand-provenance rule on the path comparisons of the header wording function (CLASSIFY-RAW)',
    text='Decides that a captured hunk header is always handed to an emitter before its state is left, that the composed file header is written only under handled != current and then marked handled, '
         'that a write to current_file_pair outside the reset is followed by the header decision (REARM), that the header-related per-file fields are reassigned on every path of the `diff ` handler and only after the previous section\'s pending header is flushed, that the hunk header names minus_file exactly when plus_file is /dev/null, and that added / removed / renamed is decided by comparing the paths as read (not their displayed form). Not decided: path parsing and label texts.',
    note=E1_NOTE, design='5/C14'),
})
RULE_NOTE = 'Trusts rustc MIR construction + callee resolution, the fact serialisation and the Python rule engines; decides the named structural clauses only (see DESIGN.md).'
CLAIMED.update({
 'C03': dict(technique='MIR rules on the input path: regex group-tree vs unwrapped capture reads (P1), unwrap of numeric parse results (P2), unsigned-subtraction discharge by dominating comparison / guard / hand-proved table (P3), abstract-interpreter reachability of explicit aborts (P4; without grammar assumptions in the thorough tier), string slicing at computed byte positions incl. crossing bounds (P5), Vec/slice indexing outside the alignment kernels (P6), non-emptiness of the parsed coordinate list (NONEMPTY)',
    text='Decides seven necessary conditions of never-crashes on the functions reachable from the renderer; the whole property (all panics, hangs, allocation) is not statically decidable here and the evidence says so.',
    note=RULE_NOTE + ' Hand-proved tables (assumptions/c03_*.json) carry one reason per exempted site. Group structure from Python\'s regex parser.', design='5/C03'),
 'C05': dict(technique='finite-table extraction from MIR (State variant -> increments / displayed numbers) compared with the specification table; must-call + provenance rules for per-hunk initialisation (incl. the coordinate parser reading only the text between the @@ markers); abstract evaluation of the line painter over the panel domain; place-provenance rule on the position handed to the hunk-header painter (HDR-POS)',
    text='Decides the increment/number table for all 16 State variants, that counters are re-seeded from the first/last coordinate pair on every path of the hunk-header emitter, that increment=false exactly for the Left panel, and that the position printed in a hunk header is the start of the last coordinate pair only.',
    note=RULE_NOTE + ' Not decided: side-by-side compensation arithmetic, widths, header text.', design='5/C05'),
 'C06': dict(technique='MIR provenance rule on the operation tags of self-built annotated lines, must-pass / pairing rule between line pushes and alignment-entry pushes, monotone-cursor rule (only += 1, increment after every use), call-graph unreachability for the unchanged-line painter',
    text='Decides only the structural clauses of C06: lines emitted without a partner are tagged from the no-op operation vectors only (no emphasis); every annotated line gets exactly one alignment entry; the plus cursor and the enumerate() minus index make successive alignment entries strictly increasing in both components (pairs never cross, no plus line paired twice); unchanged lines never reach edit inference. '
         'NOT decided (values): that the emphasised parts are a valid / minimal edit, contiguity and size of the emphasis, distance thresholds, whitespace coalescing.',
    note=RULE_NOTE + ' The alignment algorithm itself (align.rs) is not analysed; a change confined to its arithmetic is outside what this check can see.', design='6, 11.11'),
 'C07': dict(technique='MIR must-pass / ordering rule on the alignment loop of the side-by-side painter, table agreement of MinusPlus indices and alignment-pair components per panel, sibling agreement of paint/pad sides, constant-array order for unchanged lines',
    text='Decides only the structural clauses of C07: every side-by-side row is left panel + right panel + newline, appended once each and in order on every path; the left panel is fed exclusively from Left(minus)-indexed data and component 0 of the alignment pair, the right panel from Right(plus)-indexed data and component 1; a panel line is padded for the side it was painted for; unchanged lines are painted for Left then Right with one newline per row. '
         'NOT decided (value-level arithmetic over display widths): panel widths, wrap points, losslessness of wrapping, truncation marks, that no row exceeds the width, column alignment.',
    note=RULE_NOTE + ' A change that breaks only the geometry / wrapping clauses is outside what this check can see.', design='6, 11.10'),
 'C08': dict(technique='MIR who-may-read rule: every call receiving StateMachine.raw_line-derived data classified as carry/emit, escape-aware/documented, ingest guard, or violation; byte-accounting rule on the escape iterator (must-pass + finite-domain evaluation of Perform::execute over all control bytes); partial evaluation of the raw-line decision with is_raw fixed (RAW-STYLE); reachability rule between the CR removal and the max-line-length cut in the ingest functions (CR-FIRST)',
    text='Decides that no decision or parse in the renderer is taken on the raw (possibly coloured) line outside the enumerated escape-aware functions: a necessary condition for coloured and uncoloured input to be treated alike; and that the escape-sequence iterator counts every text byte (printed characters by UTF-8 length, each C0 control byte once) so that stripping removes escape sequences only; that a line whose style is `raw` always keeps its raw form; and that the carriage return git leaves before a trailing colour reset is removed before the line is measured for truncation.',
    note=RULE_NOTE + ' Byte equality of the two runs and moved-line colours are value-level and not decided.', design='5/C08'),
 'C09': dict(technique='MIR follows/guarded-by/must-pass rules on escape constants and string cutters (BALANCED, CUTTERS incl. copy-all and re-append of a stripped reset), byte-accounting rule on the escape iterator',
    text='Decides that every state-setting escape constant delta emits is followed by a reset on all paths or painted through ansi_term, and that every truncate/pop/grapheme cut in the renderer is guarded so that no escape sequence is split, that the truncation routine copies every escape item of its input on all paths, that a stripped trailing reset is appended again on every path, and that element ranges of the escape iterator account for every text byte.',
    note=RULE_NOTE + ' Balance of the input\'s own sequences and correctness of computed cut positions are not decided.', design='5/C09'),
 'C12': dict(technique='table agreement over MIR: parser word->attribute table vs printer attribute->word table, positional slot guards, three colour tables, Config field <-> style key, colour-depth provenance at every style/colour parser call, set-only attribute flags in the word loop (ORDER), printed words vs the words the special-decoration extractor consumes unconditionally (RESERVED), field coverage of the syntax-highlighter gate (SYNTAX-GATE), plus hash-order lint on the printer',
    text='Decides the structural round-trip conditions of the style language (every parsed attribute is printed with a word that parses back; foreground/background slots are positional; colour number/variant/name tables agree; each style option feeds the field of the same name; every parser call receives the configured colour depth; attribute words commute; no printed attribute word is one that the decoration pre-pass removes from commit / file / hunk-header style strings; the gate that decides whether the highlighter runs consults every style the edit-inference painter applies, so a `syntax` foreground is never painted without colours).',
    note=RULE_NOTE + ' Palette / hex arithmetic not decided.', design='5/C12'),
 'C13': dict(technique='MIR ordering (reachability between lookups), iterator-type, guarded-by rules on option processing; phase-order rule on gather_features; must-pass rule on the recursive feature gatherer (WALK); who-may-call for raw config accessors; hash-order lint',
    text='Decides main-section-first / features-reversed / custom-before-builtin lookup order, command-line-wins for all option writes and mutable borrows of option fields in set_options, the four-phase feature gathering order, that every named feature has its own section walked for sub-features and flags, --no-gitconfig gating, env overrides before file config, and determinism of option processing.',
    note=RULE_NOTE + ' The value-level lattice of placements is not decided.', design='5/C13'),
 'C15': dict(technique='taint rule on ansi_term::Style constructions (syntect provenance only into `foreground`, guarded by is_syntax_highlighted), who-may-call for content-sniffing lookups, must-call for highlighter reset, field coverage of the section-merging comparison (COALESCE), E1 typestate rules STALE-SYNTAX and HL-SWAP',
    text='Decides that syntax colours only reach the foreground of styles that ask for syntax, that characters are merged into one painted run only when their style pairs agree on is_syntax_highlighted, diff style and syntax foreground, that the language is never sniffed from content for a file name, that the language is re-selected after every file-name change before a hunk is painted, and that the highlighter is never replaced while lines read earlier are still buffered unpainted.',
    note=E1_NOTE, design='5/C15'),
 'C16': dict(technique='table agreement: the five grep regex variants assembled from MIR literals, group trees from the regex parser, vs the reader\'s (index, LineType) table, the separator printer and the try-order array; provenance rule on the rg --json submatch offset; no lazy repetition in the path group (GREEDY); mutation rule on the rg --json line text (TEXT-INTACT); who-may-touch rule for mutable state in the plain-text reader (STATELESS)',
    text='Decides that groups 1 and 8 participate in every match, 2/4/6 are exclusive alternatives whose leading separator matches the LineType they are mapped to and printed with, 3/5/7 nest in them, the plain-text variants are tried most specific first with a greedy path group, the offset applied to rg --json submatches is measured on the tab-expanded text, and the rg --json line text loses nothing but its line terminator before the reported offsets are applied to it, and the plain-text reader keeps no state between lines.',
    note=RULE_NOTE + ' Ambiguous plain-text parses and rg --json decoding not decided.', design='5/C16'),
 'C17': dict(technique='abstract evaluation of the colour-choice function over its finite decision domain (memoised predicates for memo lookups and colour equality), MIR edge rule for the next-colour function, must-call/provenance rules for the memo, must-pass rule from the colour choice to the parse of that colour (PAINTED), constant full colour depth (DEPTH), regex group participation',
    text='Decides the blame colour table against the specification for every feasible case, the alternative-colour rule, that the memo is updated for every non-repeat, that the colour painted is the colour just chosen (at full colour depth), and that the five unwrapped regex groups are mandatory.',
    note=RULE_NOTE + ' Timestamp parsing and padding not decided.', design='5/C17'),
 'C18': dict(technique='MIR unreachable-from, error-discipline (incl. no partial Write::write), BrokenPipe mapping (function summaries + edge-dominated arms, nothing printing between the failing call and the test), who-may-call process::exit (incl. nothing exit-capable in run_app while the pager handle is alive), provenance of exit status, pager selection table, ownership rule on the child stdout handle in functions that wait for the child (WAIT-CLOSED)',
    text='Decides that the renderer never prints to stdout directly or drops/unwraps output errors, that every io::Error leaving run_app has passed a BrokenPipe->Ok mapping and BrokenPipe arms are silent, exit discipline, status pass-through, the pager selection order, and that the wrapped command\'s stdout handle is moved out of the Child before delta waits for it (so the wait on the broken-pipe path can return).',
    note=RULE_NOTE + ' Delivery of bytes to the pager and signals not decided.', design='5/C18'),
 'C19': dict(technique='who-may-construct for OSC literals + template check, Element->is_escape table, sibling-arm provenance agreement at hyperlink call sites, provenance of the {line} substitution, display-transformation taint (through local helpers) on link targets and on link-text vs fallback-text of Option-returning link helpers',
    text='Decides that links are opened and closed by one template, that OSC elements are never measured, that enabling hyperlinks only wraps the value that would be printed anyway, that the linked line number is the formatter argument, and that no display-only transformation reaches the path a link points at.',
    note=RULE_NOTE + ' Absolute-path and URL template correctness not decided.', design='5/C19'),
})
NOT_APPLICABLE = {
}
PENDING = 'check not built yet in this round (designed in DESIGN.md section 5; will be claimed when its rule set runs clean)'

def main():
    props = [json.loads(l)['id'] for l in open(os.path.join(V, 'properties.jsonl')) if l.strip()]
    checks = []
    for pid in props:
        if pid in CLAIMED:
            c = CLAIMED[pid]
            checks.append({
                'property_id': pid,
                'quick_cmd': './check %s --tier quick' % pid,
                'thorough_cmd': './check %s --tier thorough' % pid,
                'evidence_file': 'evidence/%s.json' % pid,
                'replay_cmd_template': './check %s --replay {path}' % pid,
                'engine': 'dv',
                'level_claimed': {'category': 'other', 'text': c['text'], 'design_ref': c['design']},
                'level_note': c['note'],
                'technique': 'static analysis: ' + c['technique'],
            })
    na = []
    for pid in props:
        if pid not in CLAIMED:
            na.append({'property_id': pid, 'reason': NOT_APPLICABLE.get(pid, PENDING)})
    m = {
        'version': 1,
        'setup_cmd': './setup.sh',
        'hooks': {
            'guard': 'dandavison_delta_verif',
            'enable': 'none needed: static analysis reads /repo as built by `cargo +nightly check`; no instrumentation is compiled in',
            'baseline_off_cmd': 'cd /repo && cargo test --workspace --no-fail-fast --offline',
            'source_commits': [],
            'add_only': True,
        },
        'engines': [
            {'name': 'dv', 'path': 'dv/', 'serves_properties': sorted(CLAIMED),
             'kind_free_text': 'rustc_private MIR fact extractor (driver/) + Python rule engines over the resolved program: '
                               'CFG dominance / must-call / who-may-* / guarded-by rules, abstract interpreter for the line state machine, table agreement, hash-order lint'},
        ],
        'checks': checks,
        'not_applicable': na,
        'notes': 'All checks are static analysis of /repo\'s current working tree (re-extracted on every run, cached by content hash). See DESIGN.md.',
    }
    with open(os.path.join(V, 'MANIFEST.json'), 'w') as fh:
        json.dump(m, fh, indent=1)
        fh.write('\n')

if __name__ == '__main__':
    main()
