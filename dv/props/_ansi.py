"""Byte accounting of the escape-sequence iterator: a rule shared by C08 and C09 (both rely on element ranges being exact)."""
from .. import rules as Ru
from .. import fdeval
from ..facts import callee_of

C0 = list(range(0x00, 0x20))     # bytes the escape-sequence parser hands to Perform::execute in its ground state (ESC excepted, harmless to include)


def accounting_rule(F, res, prefix):
    """Element ranges are byte offsets computed from `text_length`; every input byte that is text must be counted exactly once:
    print adds the char's UTF-8 length on every path, execute adds exactly 1 for every C0 control byte, the sequence callbacks add nothing."""
    perf = {p.rsplit('::', 1)[1]: p for p in F.fn_bodies if ' as anstyle_parse::Perform>::' in p and 'ansi::iterator' in p}
    if 'print' not in perf or 'execute' not in perf:
        res.anchor_missing('ansi::iterator Perform::{print, execute}')
        return
    n = ok = 0
    samples = []
    # print
    p = perf['print']
    n += 1
    ws = [w for w in Ru.field_writes(F, p, None, 'text_length')]
    good = False
    for w in ws:
        bb = w[0]
        S = F.cfg(p)
        blk = F.blocks(p)[bb]
        vals = [st[2] for st in blk['s'] if st[0] == 'assign' and st[1]['p'] and st[1]['p'][-1][0] == 'field' and st[1]['p'][-1][3] == 'text_length']
        roots = []
        for rv in vals:
            for x in rv[1:]:
                if isinstance(x, dict):
                    roots += F.trace(p, x, deep=True)
        has_len = any(r[0] == 'call' and r[1].endswith('len_utf8') for r in roots) or any(callee_of(c).endswith('len_utf8') for _, c in F.calls(p))
        adds = any(r[0] == 'binop' and r[1].startswith('Add') for r in roots)
        if has_len and adds and not Ru.must_pass(F, p, 0, {bb}):
            good = True
    if good:
        ok += 1
    else:
        res.violate('ACCOUNTING', 'fn=%s' % p, 'Perform::print does not add the character\'s UTF-8 length to text_length on every path: element ranges drift from the input bytes',
                    where=F.bodies[p]['mir']['span']['at'])
    samples.append('print: text_length += len_utf8 on every path')
    # execute: finite-domain evaluation over the byte
    p = perf['execute']
    bad, undec = [], None
    for v in C0:
        n += 1
        try:
            r = fdeval.evaluate(F, p, {2: v})
            if r['fields'].get('text_length', 0) == 1:
                ok += 1
            else:
                bad.append(v)
        except fdeval.Undecidable as e:
            undec = str(e)
            break
    if undec:
        res.violate('ACCOUNTING', 'fn=%s;undecidable' % p, 'Perform::execute cannot be evaluated over the byte domain (%s): the accounting of control bytes is not decided' % undec,
                    where=F.bodies[p]['mir']['span']['at'])
    elif bad:
        res.violate('ACCOUNTING', 'fn=%s;bytes' % p,
                    'Perform::execute does not count control byte(s) %s into text_length: the text element before the next escape sequence ends %d byte(s) early '
                    '(coloured input loses characters that plain input keeps)' % (', '.join('0x%02x' % b for b in bad[:8]) + ('…' if len(bad) > 8 else ''), 1),
                    where=F.bodies[p]['mir']['span']['at'])
    samples.append('execute: +1 for each of the %d C0 bytes (finite-domain evaluation of the MIR)' % len(C0))
    # sequence callbacks leave text_length alone
    for name, q in sorted(perf.items()):
        if name in ('print', 'execute'):
            continue
        n += 1
        if Ru.field_writes(F, q, None, 'text_length'):
            res.violate('ACCOUNTING', 'fn=%s' % q, 'escape-sequence callback %s changes text_length: bytes of a sequence are counted as text' % name, where=F.bodies[q]['mir']['span']['at'])
        else:
            ok += 1
    # advance: pos += 1 per byte, text_length accumulated from the performer
    adv = [q for q in F.fn_bodies if q.endswith('AnsiElementIterator::<\'a>::advance_vte') or q.endswith('::advance_vte')]
    for q in adv[:1]:
        n += 1
        wp = [w[0] for w in Ru.field_writes(F, q, None, 'pos')]
        wt = [w[0] for w in Ru.field_writes(F, q, None, 'text_length') if w[2] == 'assign']
        one = ('int', 1) in {l for bb in wp for st in F.blocks(q)[bb]['s'] if st[0] == 'assign' for x in st[2][1:] if isinstance(x, dict) for l in F.operand_literals(q, x)}
        if wp and wt and one and not Ru.must_pass(F, q, 0, set(wp)) and not Ru.must_pass(F, q, 0, set(wt)):
            ok += 1
        else:
            res.violate('ACCOUNTING', 'fn=%s' % q, 'advance_vte does not add 1 to pos and the performer\'s text_length to text_length on every path', where=F.bodies[q]['mir']['span']['at'])
        samples.append('advance_vte: pos += 1; text_length += performer.text_length on every path')
    if not adv:
        res.anchor_missing('AnsiElementIterator::advance_vte')
    res.rule(prefix + '.ACCOUNTING', n, 30, 'byte accounting of the escape-sequence iterator (print, execute x C0 bytes, sequence callbacks, advance)', discharged=ok, samples=samples)
